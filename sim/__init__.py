"""Deterministic simulation harness for BrainLesion/panoptica (see /verif/DESIGN.md)."""
