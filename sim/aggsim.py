"""aggsim — executes one *plan* (plain data) against the real Panoptica_Aggregator under the
simulated scheduler, file system, locks, pool and clock, and evaluates the oracle clauses of
C16 / C17 / C18 / C20 on the recorded history and on the surviving files.

A plan:
  seed, knobs{mode, line_preempt, pool, pool_workers, stay, state_digest},
  spec (evaluator specification), inputs{key: label-map pair},
  files{name: {initial: absent|empty|header|rows, initial_subjects:[[subject,input]..], log_times}},
  phases[ {sessions[ {group, aggs[file..], tasks[[op..]..], end: graceful|kill|interrupt, fault_step} ]} ],
  schedule: null | [choices]
"""

from __future__ import annotations

import hashlib
import math
import os
import pickle
import random
import shutil
import sys

from . import model, remote
from .core import Chooser, Group, HarnessError, RemoteTaskError, Scheduler, SimInterrupt, SimSoftInterrupt
from .install import MODS, check_audit
from .seams import WORLD, SimClock, run_atexit

TIME_KEY = "computation_time"


class Violation:
    def __init__(self, clause, detail):
        self.clause = clause
        self.detail = detail

    def as_list(self):
        return [self.clause, self.detail]


def _h(*parts) -> str:
    h = hashlib.sha256()
    for p in parts:
        h.update(repr(p).encode())
    return h.hexdigest()[:16]


def _field_value(s: str):
    """Model of 'what the loader must return' for one TSV field."""
    if s == "":
        return None
    f = float(s)
    if math.isnan(f) or math.isinf(f):
        return None
    return f


class _Ghost:
    name = "thread-that-did-not-survive-the-fork"
    state = "done"


_GHOST_OWNER = _Ghost()


def _library_pool_start_method() -> str:
    """How the library's own pool class (panoptica.utils.NonDaemonicPool) starts its workers."""
    import multiprocessing

    pp = sys.modules.get("panoptica.utils.parallel_processing")
    cls = getattr(pp, "NonDaemonicPool", None)
    proc = getattr(cls, "Process", None)
    sm = getattr(proc, "_start_method", None)
    if sm:
        return sm
    try:
        import inspect

        ctx = inspect.signature(cls.__init__).parameters.get("context")
        if ctx is not None and ctx.default not in (None, inspect.Parameter.empty):
            return ctx.default.get_start_method()
    except (TypeError, ValueError, AttributeError):
        pass
    for name in ("_WORKER_CONTEXT", "_CONTEXT", "_ctx", "ctx"):
        c = getattr(pp, name, None)
        if c is not None and hasattr(c, "get_start_method"):
            return c.get_start_method()
    return multiprocessing.get_start_method(allow_none=True) or "fork"


def _reimport_module_level_locks():
    from .seams import SimLock

    for name, mod in list(sys.modules.items()):
        if mod is None or not (name == "panoptica" or name.startswith("panoptica.")):
            continue
        for attr, val in list(vars(mod).items()):
            if isinstance(val, SimLock):
                fresh = type(val)()
                fresh.name = attr
                setattr(mod, attr, fresh)


def struct_unhex(h: str) -> float:
    import struct

    return struct.unpack(">d", bytes.fromhex(h))[0]


def _same(got, exp):
    if exp is None or got is None:
        return exp is None and got is None
    if exp == "skip":
        return True
    return isinstance(got, float) and model.float_bits(got) == model.float_bits(exp)


def _same_tree(a, b):
    if a.keys() != b.keys():
        return False
    for g in a:
        if a[g].keys() != b[g].keys():
            return False
        for m in a[g]:
            x, y = a[g][m], b[g][m]
            if (x is None) != (y is None):
                return False
            if x is not None and model.float_bits(x) != model.float_bits(y):
                return False
    return True


class Exec:
    def __init__(self, plan: dict, root: str):
        self.plan = plan
        self.root = root
        self.work = os.path.join(root, plan.get("knobs", {}).get("workdir", "w"))
        self.viol: list[Violation] = []
        self.notes: dict[str, int] = {}
        self.faults_fired: list = []
        self.reported: dict = {}  # (file, subject) -> {group: {metric: canonical value}}
        self.schedule_taken: list = []
        self.begin_phase(0)
        self.evals: list = []  # (phase, group name, subject, file)
        self.logs: list = []
        self.steps_per_phase: list[int] = []
        self.fired: dict[str, int] = {}
        self.states: set = set()
        self.stat_results: list = []
        self.sched = None
        self.phase_idx = 0
        self.final_stats = {}
        self.nontrivial = False

    # ------------------------------------------------------------------ helpers
    # (inside a forked worker process `self.remote` is set and observations travel to the parent)
    remote = None
    child_pids: list = []

    def v(self, clause, detail):
        if self.remote is not None:
            self.remote.send(("viol", clause, detail))
            return
        self.viol.append(Violation(clause, detail))

    def note(self, key, n=1):
        if self.remote is not None:
            self.remote.send(("note", key, n))
            return
        self.notes[key] = self.notes.get(key, 0) + n

    def path(self, fname):
        return os.path.join(self.work, fname)

    def data_rows(self, fname):
        """(rows or None, error) of the surviving file, by the harness's strict reader."""
        b = model.read_bytes(self.path(fname))
        if b is None:
            return None, None
        try:
            return model.parse_tsv(b), None
        except model.TsvError as e:
            return None, str(e)

    def complete_subjects(self, fname):
        rows, err = self.data_rows(fname)
        if rows is None or len(rows) == 0:
            return []
        return [r[0] for r in rows[1:] if r]

    # ------------------------------------------------------------------ set-up
    def begin_phase(self, pi: int):
        """Every phase (= one operating-system process image) draws from its own PRNG streams,
        all derived from the plan's seed and the phase index: a phase is a function of
        (plan, phase index, files on disk) and can run in any pristine image."""
        seed = self.plan["seed"] ^ ((pi + 1) * 0x9E3779B97F4A7C15 & 0xFFFFFFFFFFFFFFFF)
        self.rng_sched = random.Random(seed ^ 0x5CED)
        self.rng_pool = random.Random(seed ^ 0x9001)
        self.rng_clock = random.Random(seed ^ 0xC10C)
        self.rng_fault = random.Random(seed ^ 0xFA17)
        sch = self.plan.get("schedule")
        rec = None
        if sch is not None:
            if sch and not isinstance(sch[0], list):
                sch = [sch]  # replay files written before schedules were kept per phase
            rec = sch[pi] if pi < len(sch) else []
        k = self.plan["knobs"]
        self.chooser = Chooser(self.rng_sched, rec, stay=k.get("stay", 0.5), pct_depth=k.get("pct_depth", 0))

    def world(self):
        plan = self.plan
        k = plan["knobs"]
        w = WORLD
        w.root = self.root
        w.sched = None
        w.seam_counts.clear()
        w.audit_counts.clear()
        w.stats.clear()
        w.clock = SimClock(self.rng_clock)
        w.clock.jump_prob = k.get("clock_jump", 0.0)
        if k.get("clock_slow"):
            # a fast machine / coarse clock: consecutive readings are equal or microseconds apart
            w.clock.ticks = (0.0, 0.0, 1e-6, 1e-4)
        w.pool_rng = self.rng_pool
        w.pool_mode = k.get("pool", "serial")
        w.pool_workers = k.get("pool_workers", 2)
        w.pool_points = False
        w.default_group = None
        w.eval_hook = None
        w.armed = True
        w.mtimes.clear()
        w.mtime_granularity = k.get("mtime_granularity") or 0.0
        # temporary files of the code under test stay inside the run's scratch directory (one
        # directory per run: parallel runs on this machine must not meet in /tmp)
        import tempfile

        w.armed = False
        os.makedirs(os.path.join(self.root, "tmp"), exist_ok=True)
        w.armed = True
        tempfile.tempdir = os.path.join(self.root, "tmp")
        os.environ["TMPDIR"] = tempfile.tempdir
        if k.get("locale"):
            # the host application activated a locale whose decimal point is a comma and whose
            # thousands separator is a dot (de_DE, it_IT, ...).  No such locale is installed in
            # the sandbox; what locale-aware conversions consult is replaced instead.
            import locale

            conv = dict(locale.localeconv())
            conv.update({"decimal_point": ",", "thousands_sep": ".", "grouping": [3, 3, 0], "mon_decimal_point": ",", "mon_thousands_sep": "."})
            locale.localeconv = lambda: dict(conv)
            self.note("locale_with_decimal_comma")

    def compute_ref(self):
        """Sequential reference session(s): own evaluator, own aggregator, own directory, no
        scheduler.  Runs in an image of its own."""
        plan = self.plan
        w = WORLD
        self.world()
        w.default_group = Group(-1, "reference")
        w.pool_mode = "serial"
        w.armed = False
        for lt in (0, 1):
            os.makedirs(os.path.join(self.root, f"ref{lt}"), exist_ok=True)
        w.armed = True
        self.ref = {}
        for lt in sorted({bool(f.get("log_times")) for f in plan["files"].values()}):
            refdir = os.path.join(self.root, f"ref{int(lt)}")
            try:
                header, rows, keys, gnames, invalid, missing = model.reference_rows(plan["spec"], plan["inputs"], refdir, lt)
            except model.TsvError as e:
                # what a plain sequential session wrote is not a well-formed table
                self.v("row_intact", f"the output of a sequential single-task session cannot be parsed: {e}")
                if plan.get("check_loader"):
                    self.v("names", f"the output of a sequential single-task session is not a well-formed table: {e}")
                self.ref[lt] = None
                continue
            self.ref[lt] = {"header": header, "rows": rows, "keys": keys, "groups": gnames, "invalid": invalid}
            for k in missing:
                self.v("exactly_once", f"a sequential single-task session wrote no row for input {k} although its evaluation returned normally")
            w.default_group.atexit.clear()

    def load_ref(self):
        cache = self.plan["ref_cache"]
        self.ref = {bool(int(k)): v for k, v in cache.items()}
        self.invalid = set()
        self.soft_hit = set()  # (phase, group, file, subject): a single-call fault fired in that evaluate
        for r in self.ref.values():
            self.invalid |= set(r["invalid"])

    def init_files(self):
        plan = self.plan
        os.makedirs(self.work, exist_ok=True)
        if plan["knobs"].get("symlink") and not os.path.lexists(os.path.join(self.root, "lnk")):
            os.symlink(self.work, os.path.join(self.root, "lnk"))
        for fname, f in plan["files"].items():
            ref = self.ref[bool(f.get("log_times"))]
            init = f.get("initial", "absent")
            p = self.path(fname)
            os.makedirs(os.path.dirname(p), exist_ok=True)
            if init == "absent":
                continue
            lines = []
            if init in ("header", "rows"):
                lines.append(ref["header"])
            if init == "rows":
                for subj, ik in f.get("initial_subjects", []):
                    if ik in ref["rows"]:
                        lines.append([subj] + ref["rows"][ik])
                bulk = f.get("initial_bulk")
                if bulk and ref["rows"]:
                    # hundreds of finished subjects: files and claim lists larger than the
                    # buffers of the I/O stack (several read/write system calls per pass)
                    any_row = ref["rows"][sorted(ref["rows"])[0]]
                    for i in range(bulk):
                        lines.append([f"bulk{i:05d}"] + any_row)
            import csv

            with open(p, "w", encoding="utf8", newline="") as fh:
                wr = csv.writer(fh, delimiter="\t", lineterminator="\n")
                for ln in lines:
                    wr.writerow(ln)

    # ------------------------------------------------------------------ the simulated program
    def _eval_hook(self, when, ev, a, k, res):
        s = self.sched
        if s is None or not s.in_task():
            return
        t = s.current
        if when == "enter":
            rec = (self.phase_idx, t.group.name, t.ctx.get("subject"), t.ctx.get("file"))
            if self.remote is not None:
                self.remote.send(("eval", rec))
            else:
                self.evals.append(rec)
        elif when == "exit" and self.plan.get("check_loader"):
            rep = {}
            for g, tup in res.items():
                r = tup[0]
                d = {m: model.canon(v) for m, v in r.to_dict().items()}
                ct = getattr(r, "computation_time", None)
                if ct is not None:
                    d[TIME_KEY] = model.canon(ct)
                rep[g] = d
            if self.remote is not None:
                self.remote.send(("reported", (t.ctx.get("file"), t.ctx.get("subject")), rep))
            else:
                self.reported[(t.ctx.get("file"), t.ctx.get("subject"))] = rep

    def _session_main(self, sess, group, inline=False):
        s = self.sched
        agg_mod = MODS["agg"]
        plan = self.plan
        workers = []
        try:
            decoy = sess.get("decoy")
            if decoy:
                # another evaluator (and, optionally, aggregator on another file) with a
                # different configuration lives in the same process and is used first
                dev = model.build_evaluator(decoy["spec"])
                if decoy.get("keys"):
                    list(dev.resulting_metric_keys)
                if decoy.get("aggregator"):
                    agg_mod.Panoptica_Aggregator(dev, self.path("decoy.tsv"), log_times=bool(decoy.get("log_times")))
                self.note("decoy_evaluator_first")
            spec = model.spec_variant(plan["spec"], sess.get("spec_variant"))
            ev_shared = model.build_evaluator(spec) if sess.get("share_evaluator", True) else None
            aggs = []
            for fname in sess["aggs"]:
                f = plan["files"][fname]
                ev = ev_shared if ev_shared is not None else model.build_evaluator(spec)
                # the name handed to the constructor may lack the extension (the library adds
                # ".tsv") - the file it must produce is `fname` either way
                target = os.path.join(self.work, f.get("given", fname))
                spelling = sess.get("spelling")
                if sess.get("isolated"):
                    # spelled relative to the session's own working directory
                    spelling = "isolated"
                    target = os.path.relpath(target, os.path.join(self.work, sess["isolated"]["cwd"]))
                if spelling == "symlink" and plan["knobs"].get("symlink"):
                    target = os.path.join(self.root, "lnk", f.get("given", fname))
                elif spelling == "dotted":
                    target = os.path.join(self.work, ".", f.get("given", fname))
                elif spelling == "updown":
                    target = os.path.join(self.work, "..", os.path.basename(self.work), f.get("given", fname))
                elif spelling is None and plan["knobs"].get("symlink"):
                    # the output directory is reached through a symbolic link
                    target = os.path.join(self.root, "lnk", f.get("given", fname))
                if plan["knobs"].get("relpath") is not None and spelling in (None, "relative"):
                    # the phase image's working directory is the output directory
                    target = plan["knobs"]["relpath"] + f.get("given", fname)
                if sess.get("path_kind") == "path":
                    target = agg_mod.Path(target)
                s.current.ctx["file"] = fname
                try:
                    if sess.get("continue_file") is False:
                        # explicit continue_file=False on a file that does not exist yet: nothing to continue
                        a = agg_mod.Panoptica_Aggregator(ev, target, log_times=bool(f.get("log_times")), continue_file=False)
                    else:
                        a = agg_mod.Panoptica_Aggregator(ev, target, log_times=bool(f.get("log_times")))
                except AssertionError:
                    if sess.get("spec_variant"):
                        # a restart that declares the setup differently may be refused
                        self.note("refused_different_setup")
                        return True
                    raise
                if sess.get("spec_variant"):
                    self.note("accepted_reordered_setup")
                if sess.get("recreate"):
                    # the script builds its aggregator a second time on the same file (e.g.
                    # `agg = Panoptica_Aggregator(...)` executed again); the first object is
                    # dropped before or after the second one exists
                    if sess["recreate"] == "drop_first":
                        del a
                        a = agg_mod.Panoptica_Aggregator(ev, target, log_times=bool(f.get("log_times")))
                    else:
                        a2 = agg_mod.Panoptica_Aggregator(ev, target, log_times=bool(f.get("log_times")))
                        del a
                        a = a2
                        del a2
                    self.note("aggregator_recreated")
                aggs.append(a)
            if sess.get("main_stat"):
                # the parent builds a statistics object before handing work to its workers ...
                self._main_stat(sess, aggs, "before")
            mode = plan["knobs"].get("mode")
            lazy = plan["knobs"].get("fork_at") == "first_run"
            if inline:
                for ops in sess["tasks"]:
                    self._worker(sess, aggs, ops, "threads")
                run_atexit(group)
                return True
            for i, ops in enumerate(sess["tasks"]):
                # "mixed": the same aggregator is used from threads and from forked workers at once
                wmode = mode if mode != "mixed" else ("threads", "procs", "forked")[(plan["seed"] + i) % 3]
                if wmode in ("procs", "forked", "libpool"):
                    workers.append(self._spawn_remote(s, group, f"{group.name}.w{i}", sess, aggs, ops, wmode, lazy))
                else:
                    workers.append(s.spawn(f"{group.name}.w{i}", group, self._worker, sess, aggs, ops, wmode))
            s.join(workers)
            if sess.get("main_stat"):
                # ... and again after all of them returned: it must see every row they wrote
                self._main_stat(sess, aggs, "after")
        except SimInterrupt:
            pass
        if workers:
            while any(t.state not in ("done", "dead") for t in workers):
                s.block("join")
        # graceful (or interrupted) interpreter exit: atexit handlers of the parent process
        errs = run_atexit(group)
        for e in errs:
            self.v("no_exception", f"atexit handler raised {e[0]}: {e[1]}")
        return True

    # ------------------------------------------------------------------ worker processes (real fork)
    def _spawn_remote(self, s, group, name, sess, aggs, ops, wmode, lazy=False):
        """Give a worker process a proxy task in the scheduler.  The process is forked either now
        (the running thread is the session's parent: Pool-style, all workers start from the same
        image) or when the proxy task first runs (executor-style lazy start: the parent's threads
        may be in the middle of their own calls at that moment)."""
        if lazy:
            return s.spawn(name, group, self._proxy_lazy, group, name, sess, aggs, ops, wmode)
        cmd_w, msg_r, pid = self._fork_worker(group, name, len(s.tasks), sess, aggs, ops, wmode)
        return s.spawn(name, group, self._proxy, cmd_w, msg_r, pid)

    def _proxy_lazy(self, group, name, sess, aggs, ops, wmode):
        t = self.sched.current
        self.note("worker_forked_lazily")
        cmd_w, msg_r, pid = self._fork_worker(group, name, t.tid, sess, aggs, ops, wmode)
        return self._proxy(cmd_w, msg_r, pid)

    def _fork_worker(self, group, name, tid, sess, aggs, ops, wmode):
        cmd_r, cmd_w = os.pipe()
        msg_r, msg_w = os.pipe()
        sys.stdout.flush()
        # fork copies the parent's memory: a threading lock of the package that some thread of the
        # parent holds right now is *held* in the child's copy too - by a thread that does not
        # exist there, i.e. forever
        sc = self.sched
        if isinstance(sc, Scheduler):
            parent_proc, child_proc = WORLD.current_proc(), (group.gid, tid + 1)
            for (gid, key), st in list(sc.lockstate.items()):
                if gid == group.gid and isinstance(key, tuple) and len(key) == 3 and key[0] == "thread" and key[2] == parent_proc and st["owner"] is not None:
                    sc.lockstate[(gid, ("thread", key[1], child_proc))] = {"owner": _GHOST_OWNER}
                    self.note("threading_lock_inherited_locked")
        pid = os.fork()
        if pid == 0:
            code = 0
            try:
                os.close(cmd_w)
                os.close(msg_r)
                for fd in self.parent_fds:
                    try:
                        os.close(fd)
                    except OSError:
                        pass
                remote.die_with_parent()
                rs = remote.RemoteSched(cmd_r, msg_w, tid, name, group, ("worker", group.gid, tid))
                if self.plan["knobs"].get("gc"):
                    rs.gc_rng, rs.gc_prob = random.Random(self.plan["seed"] ^ 0x6C6C ^ (tid << 8)), float(self.plan["knobs"]["gc"])
                WORLD.sched = rs
                WORLD.remote = rs
                WORLD.clock = remote.RemoteClock(rs, None)
                WORLD.stats.clear()
                WORLD.seam_counts.clear()
                WORLD.audit_counts.clear()
                self.sched = rs
                self.remote = rs
                exc = None
                try:
                    if wmode == "libpool" and _library_pool_start_method() == "spawn":
                        # a spawned worker is a fresh interpreter that imports the package again:
                        # its module-level synchronisation primitives are new, private objects
                        _reimport_module_level_locks()
                        rs.send(("note", "worker_spawned_fresh_locks", 1))
                    rs.wait_go()
                    if wmode == "isolated":
                        cwd = os.path.join(self.work, sess["isolated"]["cwd"])
                        WORLD.armed = False
                        os.makedirs(cwd, exist_ok=True)
                        WORLD.armed = True
                        os.chdir(cwd)
                        self._session_main(sess, rs.current.group, inline=True)
                    else:
                        self._worker(sess, aggs, ops, wmode)
                except SimInterrupt:
                    exc = ("SimInterrupt", "", "")
                except BaseException as e:  # noqa: BLE001 - what the code under test raises is data
                    import traceback

                    exc = (type(e).__name__, str(e)[:500], traceback.format_exc()[-4000:])
                rs.send(("stats", dict(WORLD.stats), dict(WORLD.seam_counts), dict(WORLD.audit_counts)))
                rs.send(("done", exc))
            except BaseException:  # noqa: BLE001
                code = 3
            finally:
                os._exit(code)
        os.close(cmd_r)
        os.close(msg_w)
        self.parent_fds.extend([cmd_w, msg_r])
        self.child_pids.append(pid)
        return cmd_w, msg_r, pid

    def _proxy(self, cmd_w, msg_r, pid):
        """The worker process's task in the central scheduler: performs every scheduling point,
        lock operation and clock reading on the child's behalf."""
        s = self.sched
        t = s.current
        t.ctx["proc"] = t.tid + 1
        w = WORLD
        S, R = remote._send, remote._recv
        S(cmd_w, ("go",))
        exc = None
        while True:
            m = R(msg_r)
            if m is None:
                raise HarnessError(f"worker process of task {t.name} died without a result")
            k = m[0]
            try:
                if k == "point":
                    s.point(m[1], m[2])
                    S(cmd_w, ("go",))
                elif k == "unwind":
                    s.point(m[1], m[2])
                elif k == "lock_acquire" or k == "lock_acquire_unwinding":
                    S(cmd_w, ("ok", s.lock_acquire(m[1], m[2], m[3], m[4] if len(m) > 4 else None)))
                elif k == "lock_release":
                    try:
                        s.lock_release(m[1], m[2])
                    except ValueError as e:
                        S(cmd_w, ("error", str(e)))
                    else:
                        S(cmd_w, ("ok",))
                elif k == "block_forever":
                    while True:
                        s.block(("worker", m[1]))
                elif k == "count":
                    s.count(m[1], m[2])
                elif k == "clock":
                    c = w.clock
                    S(cmd_w, ("ok", c.wall if m[1] == "wall" else getattr(c, m[1])()))
                elif k == "mtime":
                    if m[1] == "set":
                        w.set_mtime(m[2])
                        S(cmd_w, ("ok", None))
                    else:
                        S(cmd_w, ("ok", w.known_mtime(m[2], m[3])))
                elif k == "viol":
                    self.v(m[1], m[2])
                elif k == "note":
                    self.note(m[1], m[2])
                elif k == "eval":
                    self.evals.append(tuple(m[1]))
                elif k == "reported":
                    self.reported[tuple(m[1])] = m[2]
                elif k == "stats":
                    for src, dst in ((m[1], w.stats), (m[2], w.seam_counts), (m[3], w.audit_counts)):
                        for kk, n in src.items():
                            dst[kk] = dst.get(kk, 0) + n
                elif k == "done":
                    exc = m[1]
                    break
            except SimInterrupt:
                S(cmd_w, ("interrupt",))
        try:
            os.waitpid(pid, 0)
        except ChildProcessError:
            pass
        if exc is not None and exc[0] == "SimInterrupt":
            raise SimInterrupt()
        if exc is not None:
            raise RemoteTaskError(exc)
        return True

    def _main_stat(self, sess, aggs, when):
        for ai, a in enumerate(aggs):
            fname = sess["aggs"][ai]
            before = len(self.complete_subjects(fname))
            try:
                st = a.make_statistic()
            except SimInterrupt:
                raise
            except Exception as e:  # noqa: BLE001
                if before >= 1:
                    self.v("stat_complete_rows", f"make_statistic ({when} the workers) raised {type(e).__name__}: {str(e)[:160]} with {before} complete rows in the file")
                else:
                    self.note("stat_on_header_only_raised")
                continue
            after = self.complete_subjects(fname)
            try:
                self._check_stat(st, fname, before, after)
                if when == "after" and list(st.subjectnames) != after:
                    self.v("names", f"make_statistic after all workers returned lists {list(st.subjectnames)!r}, the file holds {after!r}")
                if when == "after" and self.plan.get("check_loader") and after:
                    # the parent's own statistics object, judged like the loader's: the model is
                    # the text of the file it was built from
                    rows, err = self.data_rows(fname)
                    ref = self.ref[bool(self.plan["files"][fname].get("log_times"))]
                    if err is None and rows and rows[0] == ref["header"] and all(len(r) == len(rows[0]) for r in rows):
                        cells = [(g, m) for g in ref["groups"] for m in ref["keys"]]
                        table = {r[0]: {g: {} for g in ref["groups"]} for r in rows[1:]}
                        for r in rows[1:]:
                            for (g, m), fld in zip(cells, r[1:]):
                                try:
                                    table[r[0]][g][m] = _field_value(fld)
                                except ValueError:
                                    table[r[0]][g][m] = "skip"
                        self.query_history(st, MODS["st"], fname, [r[0] for r in rows[1:]], table, ref, rows, second_object=False)
                        self.note("main_stat_query_history")
            except SimInterrupt:
                raise
            except Exception as e:  # noqa: BLE001
                self.v("stat_complete_rows", f"inspecting the statistics object raised {type(e).__name__}: {str(e)[:160]}")
            self.note("main_stat_" + when)

    def _worker(self, sess, aggs, ops, wmode=None):
        s = self.sched
        t = s.current
        plan = self.plan
        mode = wmode or plan["knobs"].get("mode")
        procs = mode in ("procs", "libpool")  # the callable travels pickled, once per call
        t.ctx["proc"] = 0 if mode == "threads" else t.tid + 1
        if mode == "forked":
            # a long-lived worker forked after the aggregators were built: it inherits its own
            # copy of every object and keeps it across all the calls it serves
            aggs = pickle.loads(pickle.dumps(aggs))
        for op in ops:
            kind = op[0]
            fname = sess["aggs"][op[1]]
            a = aggs[op[1]]
            t.ctx["file"] = fname
            if procs:
                # what Pool.starmap / ProcessPoolExecutor.submit do with a bound method
                a = pickle.loads(pickle.dumps(a))
            if kind == "eval":
                subj, ik = op[2], op[3]
                pred, ref = model.build_arrays(plan["inputs"][ik])
                fp = (model.array_fingerprint(pred), model.array_fingerprint(ref))
                t.ctx["subject"] = subj
                s.point("op.eval", "")
                if not plan["inputs"][ik].get("poison") and self._arm_soft(t, op, mode):
                    # a script that guards each call (or a notebook cell interrupted by hand):
                    # this one call fails at a file operation, the interpreter lives on
                    try:
                        a.evaluate(pred, ref, subj)
                        self.note("soft_fault_not_reached")
                    except SimInterrupt:
                        raise
                    except (SimSoftInterrupt, OSError) as e:
                        if "injected" not in str(e):
                            raise
                        self.soft_hit.add((self.phase_idx, t.group.name, fname, subj))
                        self.note("soft_fault_raised_in_evaluate")
                    finally:
                        t.soft = None
                    continue
                if plan["inputs"][ik].get("poison"):
                    # user code that guards each call: a malformed subject fails, the others go on
                    try:
                        a.evaluate(pred, ref, subj)
                        self.note("poison_evaluation_did_not_raise")
                    except SimInterrupt:
                        raise
                    except Exception:  # noqa: BLE001
                        self.note("poison_evaluation_raised")
                    continue
                a.evaluate(pred, ref, subj)
                if (model.array_fingerprint(pred), model.array_fingerprint(ref)) != fp:
                    self.v("input_unmodified", f"aggregator.evaluate changed the caller's arrays (subject {subj!r})")
            elif kind == "stat":
                before = len(self.complete_subjects(fname))
                s.point("op.stat", "")
                armed = self._arm_soft(t, op, mode)
                try:
                    st = a.make_statistic()
                except SimInterrupt:
                    raise
                except (SimSoftInterrupt, OSError) as e:
                    if not armed or "injected" not in str(e):
                        raise
                    self.note("soft_fault_raised_in_make_statistic")
                    continue
                except Exception as e:  # noqa: BLE001
                    if before >= 1:
                        self.v("stat_complete_rows", f"make_statistic raised {type(e).__name__}: {str(e)[:200]} with {before} complete rows in the file")
                    else:
                        self.note("stat_on_header_only_raised")
                    continue
                finally:
                    t.soft = None
                after = self.complete_subjects(fname)
                try:
                    self._check_stat(st, fname, before, after)
                except SimInterrupt:
                    raise
                except Exception as e:  # noqa: BLE001 - the statistics object itself misbehaves
                    self.v("stat_complete_rows", f"inspecting the statistics object raised {type(e).__name__}: {str(e)[:160]}")
        return True

    def _arm_soft(self, t, op, mode):
        """Arm the single-call fault an operation of the plan carries (threads of one interpreter
        only: the fault is raised in the calling thread itself)."""
        extra = op[-1] if isinstance(op[-1], dict) else None
        soft = extra.get("soft") if extra else None
        if not soft:
            return False
        if mode != "threads" or self.remote is not None:
            self.note("soft_fault_not_armed_worker_process")
            return False
        t.soft = [int(soft[0]), ("openat",), str(soft[1])]
        t.soft_fire = None
        return True

    def _check_stat(self, st, fname, before, after):
        """A statistics object built mid-run reflects only complete rows."""
        plan = self.plan
        ref = self.ref[bool(plan["files"][fname].get("log_times"))]
        names = list(st.subjectnames)
        self.note("stat_built")
        if len(names) >= 1:
            self.note("stat_built_nonempty")
        if len(set(names)) != len(names):
            self.v("stat_complete_rows", f"statistics lists a subject twice: {names!r}")
        if not (before <= len(names) <= len(after)):
            self.v("stat_complete_rows", f"statistics has {len(names)} subjects; file had {before} before and {len(after)} after the call")
        sub_inputs = self.submitted(fname)
        metric_names = list(st.metricnames)
        for sn in names:
            if sn not in sub_inputs:
                self.v("stat_complete_rows", f"statistics lists {sn!r}, which was never submitted")
                continue
            try:
                got = st.get_one_subject(sn)
            except Exception as e:  # noqa: BLE001
                self.v("stat_complete_rows", f"get_one_subject({sn!r}) raised {type(e).__name__}")
                continue
            ok = False
            for ik in sub_inputs[sn]:
                if ik not in ref["rows"]:
                    continue
                exp = self._expected_values(ref, ik)
                if self._values_match(got, exp, ref):
                    ok = True
                    break
            if not ok:
                self.v("stat_complete_rows", f"statistics values of {sn!r} are not those of a complete row")

    def _expected_values(self, ref, ik):
        fields = ref["rows"][ik]
        keys = ref["keys"]
        out = {}
        i = 0
        for g in ref["groups"]:
            out[g] = {}
            for m in keys:
                out[g][m] = fields[i]
                i += 1
        return out

    def _values_match(self, got, exp, ref):
        for g in ref["groups"]:
            if g not in got:
                return False
            for m in ref["keys"]:
                if m not in got[g]:
                    return False
                gv = got[g][m]
                if m == TIME_KEY:
                    if gv is not None and not (isinstance(gv, float) and gv >= 0):
                        return False
                    continue
                ev = _field_value(exp[g][m])
                if ev is None:
                    if gv is not None:
                        return False
                elif not (isinstance(gv, float) and model.float_bits(gv) == model.float_bits(ev)):
                    return False
        return True

    def submitted(self, fname):
        """subject -> set of input keys ever submitted (or initially present) for this file."""
        out = {}
        f = self.plan["files"][fname]
        if f.get("initial") == "rows":
            for subj, ik in f.get("initial_subjects", []):
                out.setdefault(subj, set()).add(ik)
            if f.get("initial_bulk"):
                ref = self.ref[bool(f.get("log_times"))]
                if ref["rows"]:
                    k0 = sorted(ref["rows"])[0]
                    for i in range(f["initial_bulk"]):
                        out.setdefault(f"bulk{i:05d}", set()).add(k0)
        for ph in self.plan["phases"]:
            for sess in ph["sessions"]:
                for ops in sess["tasks"]:
                    for op in ops:
                        if op[0] == "eval" and sess["aggs"][op[1]] == fname:
                            out.setdefault(op[2], set()).add(op[3])
        return out

    # ------------------------------------------------------------------ phases
    def _on_point(self, s, t, kind, detail):
        if kind in ("write", "unlink", "lock.acquired", "lock.release", "openat"):
            st = []
            for dirpath, _dirs, fnames in sorted(os.walk(self.work)):
                for fname in sorted(fnames):
                    b = model.read_bytes(os.path.join(dirpath, fname))
                    st.append((os.path.relpath(os.path.join(dirpath, fname), self.work), hashlib.sha256(b or b"").hexdigest()[:12]))
            owners = sorted((str(k), None if v["owner"] is None else v["owner"].name) for k, v in s.lockstate.items())
            self.states.add(_h(st, owners))

    def run_phase(self, pi, phase):
        plan = self.plan
        k = plan["knobs"]
        self.phase_idx = pi
        # source-line pre-emption only matters where memory is shared (thread mode)
        lt = ("panoptica_aggregator.py",) if k.get("line_preempt") and k.get("mode") == "threads" else ()
        self.parent_fds = []
        self.child_pids = []
        if k.get("gc"):
            s_gc = random.Random(self.plan["seed"] ^ 0x6C6C ^ pi)
        else:
            s_gc = None
        s = Scheduler(self.chooser, budget=k.get("budget", 400000), line_trace_files=lt)
        s.gc_rng, s.gc_prob = s_gc, float(k.get("gc") or 0.0)
        if k.get("stall_task"):
            s.stallt_rng, s.stallt_prob = random.Random(self.plan["seed"] ^ 0x57A77 ^ pi), float(k["stall_task"])
        if k.get("stall"):
            s.stall_rng, s.stall_prob = random.Random(self.plan["seed"] ^ 0x57A11 ^ pi), float(k["stall"])

            def _jump(dt):
                if WORLD.clock is not None:
                    WORLD.clock.mono += dt
                    WORLD.clock.wall += dt

            s.on_timeout = _jump
        if k.get("relpath") is not None:
            os.chdir(self.work)
        self.sched = s
        w = WORLD
        w.sched = s
        w.pool_points = bool(k.get("pool_points", True))
        w.eval_hook = self._eval_hook
        if k.get("state_digest"):
            s.on_point = self._on_point
        pre = {fname: self.complete_subjects(fname) for fname in plan["files"]}
        # reach probes: in which state does a session find the files it (re)starts on
        touched = {fn for sess in phase["sessions"] for fn in sess["aggs"]}
        for fname in sorted(touched):
            b = model.read_bytes(self.path(fname))
            state = "absent" if b is None else ("empty" if b == b"" else ("header" if not pre[fname] else "rows"))
            self.note(("restart_on_" if pi > 0 else "start_on_") + state)
        if pi > 0:
            for fn in os.listdir(self.work):
                # any file next to the outputs that is not an output itself may be a claim list
                # (the probe must not depend on how the library names its temporary file)
                if fn not in plan["files"] and not fn.startswith(("perm_", "other_", "decoy")) and os.path.isfile(self.path(fn)):
                    claims = (model.read_bytes(self.path(fn)) or b"").decode("utf8", "replace").split("\n")
                    done = {x for v in pre.values() for x in v}
                    if any(c and c not in done and c.strip('"') not in done for c in claims):
                        self.note("restart_with_stale_claims")
        mains = []
        for sess in phase["sessions"]:
            g = s.new_group(sess["group"])
            g.meta["sess"] = sess
            if sess.get("isolated"):
                # an unrelated script: its own operating-system process (forked now, from the still
                # pristine phase image), its own working directory, one sequential task
                cmd_w, msg_r, pid = self._fork_worker(g, f"{g.name}.main", len(s.tasks), sess, None, None, "isolated")
                mains.append(s.spawn(f"{g.name}.main", g, self._proxy, cmd_w, msg_r, pid))
                self.note("isolated_session_process")
            else:
                mains.append(s.spawn(f"{g.name}.main", g, self._session_main, sess, g))
            if sess.get("end") == "kill" and sess.get("fault_step"):
                s.kills[int(sess["fault_step"])] = g.gid
            elif sess.get("end") == "interrupt" and sess.get("fault_step"):
                s.interrupts[int(sess["fault_step"])] = g.gid
            elif sess.get("end") in ("kill", "interrupt"):
                g.meta["hazard"] = (sess["end"], sess.get("hazard_p", 0.03))
        if any("hazard" in g.meta for g in s.groups):
            hot = ("write", "close", "unlink", "lock.release", "eval.enter", "eval.exit", "openat")
            rf = self.rng_fault

            def hazard(sc, task, kind, detail):
                for g in sc.groups:
                    hz = g.meta.get("hazard")
                    if hz is None or not g.alive or g.interrupting:
                        continue
                    p = hz[1] * (3.0 if kind in hot else 1.0)
                    if rf.random() < p:
                        return (hz[0], g.gid)
                return None

            s.hazard = hazard
        outcome = s.run()
        w.sched = None
        w.eval_hook = None
        import signal as _signal

        for pid in self.child_pids:  # workers of killed groups are still parked on their pipes
            try:
                os.kill(pid, _signal.SIGKILL)
            except ProcessLookupError:
                pass
        for pid in self.child_pids:
            try:
                os.waitpid(pid, 0)
            except ChildProcessError:
                pass
        for fd in self.parent_fds:
            try:
                os.close(fd)
            except OSError:
                pass
        self.steps_per_phase.append(s.step)
        self.logs.append(s.log)
        for ff in s.faults_fired:
            self.faults_fired.append([pi] + list(ff))
        for kk, n in s.fired.items():
            self.fired[kk] = self.fired.get(kk, 0) + n
        if outcome == "deadlock":
            blocked = [(t.name, str(t.blocked_on)) for t in s.tasks if t.state == "blocked"]
            self.v("no_deadlock", f"phase {pi}: tasks blocked forever: {blocked}")
        elif outcome == "budget":
            self.v("no_deadlock", f"phase {pi}: step budget exhausted (livelock)")
        for t in s.tasks:
            if t.exc is not None and t.exc[0] == "HarnessError":
                self.harness_error = f"phase {pi} task {t.name}: {t.exc[1]} | {t.exc[2][-600:]}"
            elif t.exc is not None and t.exc[0] != "SimInterrupt":
                self.v("no_exception", f"phase {pi} task {t.name}: {t.exc[0]}: {t.exc[1]}")
                self.note("exc:" + t.exc[0])
        # overlap measure: two tasks were inside operations at the same time
        active = set()
        for ev in s.log:
            if ev[2] in ("op.eval", "op.stat"):
                active.add(ev[1])
                if len(active) >= 2:
                    self.nontrivial = True
            elif ev[2] == "task.end":
                active.discard(ev[1])
        if s.fired.get("kill") or s.fired.get("interrupt"):
            self.nontrivial = True
        self._phase_oracles(pi, phase, pre, s)

    def _phase_oracles(self, pi, phase, pre, s):
        """C17: finished subjects are skipped, unfinished ones are evaluated again — judged
        for sessions that ran to completion."""
        for sess in phase["sessions"]:
            g = next(x for x in s.groups if x.name == sess["group"])
            if not g.alive or g.interrupting:
                continue
            if any(t.group is g and t.exc is not None for t in s.tasks):
                continue
            per = {}
            for ops in sess["tasks"]:
                for op in ops:
                    if op[0] == "eval":
                        per.setdefault((sess["aggs"][op[1]], op[2]), 0)
                        per[(sess["aggs"][op[1]], op[2])] += 1
            for (fname, subj), nsub in per.items():
                n = sum(1 for e in self.evals if e[0] == pi and e[1] == g.name and e[2] == subj and e[3] == fname)
                softened = (pi, g.name, fname, subj) in self.soft_hit
                if softened and subj not in pre[fname]:
                    # the failed call may or may not have evaluated before it failed; a repeated
                    # submission of the name may or may not have been accepted - never twice
                    if n > 1:
                        self.v("unfinished_redone", f"phase {pi}: {subj!r} evaluated {n}x in one session (one of its calls failed at a file operation)")
                    else:
                        self.note("soft_faulted_subject_judged_relaxed")
                    continue
                if subj in pre[fname]:
                    if n != 0:
                        self.v("finished_skipped", f"phase {pi}: {subj!r} had a complete row in {fname} at session start but was evaluated {n}x")
                    else:
                        self.note("skipped_finished")
                else:
                    if n != 1:
                        self.v("unfinished_redone", f"phase {pi}: {subj!r} had no row in {fname} at session start; evaluated {n}x (submitted {nsub}x)")
                    else:
                        self.note("evaluated_unfinished")
                        if nsub > 1:
                            self.note("duplicate_submission_refused")

    # ------------------------------------------------------------------ final oracles
    def final_oracles(self):
        plan = self.plan
        last = plan["phases"][-1]
        for fname, f in plan["files"].items():
            ref = self.ref[bool(f.get("log_times"))]
            rows, err = self.data_rows(fname)
            touched = any(fname in sess["aggs"] for ph in plan["phases"] for sess in ph["sessions"])
            if not touched:
                continue
            # the property speaks about the state after a session that ran to completion: a
            # history whose last session on this file was killed or interrupted (only a
            # minimiser can produce one) is outside the quantifier - no verdict for the file
            last_sess = [sess for ph in plan["phases"] for sess in ph["sessions"] if fname in sess["aggs"]][-1]
            if last_sess.get("end", "graceful") != "graceful":
                self.note("file_not_judged_last_session_faulted")
                continue
            if err is not None:
                self.v("row_intact", f"{fname}: {err}")
                continue
            if rows is None:
                self.v("header_once", f"{fname}: output file does not exist after the history")
                continue
            if not rows or rows[0] != ref["header"]:
                self.v("header_once", f"{fname}: first line is not the header (got {(rows[0] if rows else None)!r:.200})")
                continue
            if sum(1 for r in rows if r == ref["header"]) != 1:
                self.v("header_once", f"{fname}: header occurs more than once")
            sub = self.submitted(fname)
            # which subjects must be present: everything submitted by sessions that completed
            # gracefully after the last kill, plus whatever was already complete
            must = set()
            for pi, ph in enumerate(plan["phases"]):
                for sess in ph["sessions"]:
                    if sess.get("end", "graceful") == "graceful":
                        for ops in sess["tasks"]:
                            for op in ops:
                                if op[0] == "eval" and sess["aggs"][op[1]] == fname and op[3] not in self.invalid:
                                    if (pi, sess["group"], fname, op[2]) in self.soft_hit:
                                        # this session's call for the subject failed: the session does not owe the row
                                        continue
                                    must.add(op[2])
            if f.get("initial") == "rows":
                must |= {s for s, ik in f.get("initial_subjects", []) if ik in ref["rows"]}
                if f.get("initial_bulk") and ref["rows"]:
                    must |= {f"bulk{i:05d}" for i in range(f["initial_bulk"])}
            names = [r[0] if r else None for r in rows[1:]]
            counts = {}
            for n in names:
                counts[n] = counts.get(n, 0) + 1
            for n, c in counts.items():
                if c > 1:
                    self.v("exactly_once", f"{fname}: subject {n!r} has {c} rows")
                if n not in sub:
                    self.v("exactly_once", f"{fname}: row for {n!r}, which was never submitted")
            for n in must:
                if n not in counts:
                    self.v("exactly_once", f"{fname}: no row for submitted subject {n!r}")
            tcols = {i for i, h in enumerate(ref["header"]) if h.endswith("-" + TIME_KEY)}
            for r in rows[1:]:
                if len(r) != len(ref["header"]):
                    self.v("row_intact", f"{fname}: row of {r[0] if r else None!r} has {len(r)} fields, header has {len(ref['header'])}")
                    continue
                if r[0] not in sub:
                    continue
                ok = False
                for ik in sub[r[0]]:
                    exp = ref["rows"].get(ik)
                    if exp is None:
                        continue
                    if all((i + 1 in tcols) or (a == b) for i, (a, b) in enumerate(zip(r[1:], exp))):
                        ok = True
                        break
                if not ok:
                    self.v("row_intact", f"{fname}: row of {r[0]!r} differs from the sequential run's row")
                for i in tcols:
                    if r[i] != "":
                        try:
                            if not float(r[i]) >= 0:
                                raise ValueError
                        except ValueError:
                            self.v("row_intact", f"{fname}: computation_time field {r[i]!r} is not a non-negative float")
            self.final_stats[fname] = len(rows) - 1

    # ------------------------------------------------------------------ C18 / C20: loader vs model
    def loader_oracles(self, fname="out.tsv"):
        """The statistics loader (real code, no scheduler) against the recorded results."""
        plan = self.plan
        st_mod = MODS["st"]
        f = plan["files"][fname]
        ref = self.ref[bool(f.get("log_times"))]
        rows, err = self.data_rows(fname)
        if err is not None or not rows or len(rows) < 2:
            self.note("loader_skipped_no_rows")
            return
        WORLD.default_group = Group(-2, "loader")
        path = self.path(fname)
        if plan.get("strip_final_newline"):
            # another tool re-saved the (complete, valid) table without the final line terminator
            b = model.read_bytes(path)
            if b and b.endswith(b"\n"):
                with open(path, "wb") as fh:
                    fh.write(b[:-1])
                self.note("table_without_final_newline")
        try:
            st = st_mod.Panoptica_Statistic.from_file(path)
        except Exception as e:  # noqa: BLE001
            self.v("loader_no_exception", f"Panoptica_Statistic.from_file raised {type(e).__name__}: {str(e)[:200]}")
            return
        file_names = [r[0] for r in rows[1:]]
        try:
            list(st.subjectnames), list(st.groupnames), list(st.metricnames)
        except Exception as e:  # noqa: BLE001
            self.v("names", f"statistics object accessors raised {type(e).__name__}: {str(e)[:160]}")
            return
        if list(st.subjectnames) != file_names:
            self.v("names", f"loader subjects {list(st.subjectnames)!r} != rows in the file {file_names!r}")
            # (no return: the queries below then show what this does to lookups and summaries)
        if all(sess.get("end", "graceful") == "graceful" for ph in plan["phases"] for sess in ph["sessions"]):
            # every value a result reported must be recoverable under the subject name it was
            # submitted with
            for (f2, sn2) in sorted(self.reported, key=repr):
                if f2 == fname and sn2 is not None and sn2 not in file_names:
                    self.v("names", f"a result was reported for subject {sn2!r} but the table has no row of that name")
        if sorted(st.groupnames) != sorted(ref["groups"]) or len(st.groupnames) != len(ref["groups"]):
            self.v("names", f"loader groups {sorted(st.groupnames)!r} != evaluator groups {sorted(ref['groups'])!r}")
            return
        if list(st.metricnames) != list(ref["keys"]):
            self.v("names", f"loader metrics {list(st.metricnames)!r} != advertised keys {list(ref['keys'])!r}")
            return
        # model table: expected loader value per (subject, group, metric) from the reported results
        table = {}
        for sn in file_names:
            rep = self.reported.get((fname, sn))
            if rep is None:
                continue  # row present from the initial state, not produced in this run
            table[sn] = {}
            for g in ref["groups"]:
                table[sn][g] = {}
                for m in ref["keys"]:
                    c = rep.get(g, {}).get(m, "absent")
                    if c == "absent" or c is None:
                        exp = None
                    elif c[0] == "i":
                        exp = float(c[1])
                    elif c[0] == "f":
                        exp = None if c[1] == "nan" else struct_unhex(c[1])
                        if exp is not None and math.isinf(exp):
                            exp = None
                    else:
                        exp = "skip"
                    table[sn][g][m] = exp
        self.note("loader_checked")
        if len(ref["groups"]) >= 2:
            self.note("loader_multi_group")
        if any("-" in g for g in ref["groups"]):
            self.note("group_name_with_dash")
        if any(not sn.isalnum() for sn in file_names):
            self.note("awkward_subject_name")
        if len(file_names) >= 2 or len(ref["groups"]) >= 2:
            self.nontrivial = True
        self.query_history(st, st_mod, fname, file_names, table, ref, rows)

    # a seeded history of queries on one statistics object, each judged against the model
    def query_history(self, st, st_mod, fname, file_names, table, ref, rows, second_object=True):
        rng = self.rng_fault

        def stats(vals):
            n = len(vals)
            avg = math.fsum(vals) / n
            var = math.fsum((x - avg) ** 2 for x in vals) / n
            return avg, math.sqrt(var), min(vals), max(vals)

        def close(a, b, scale):
            return a == b or abs(a - b) <= 1e-12 * max(1.0, abs(scale))

        def make_queries(st, file_names, table, tag):
            complete = all(sn in table for sn in file_names)
            if tag == "C":
                # values handed to the constructor come back as they are (int stays int, float32
                # stays float32): they are compared by numeric value, not by type and bit pattern
                def _same(got, exp):  # noqa: F811
                    if exp is None or got is None:
                        return exp is None and got is None
                    if exp == "skip":
                        return True
                    try:
                        return float(got) == float(exp)
                    except (TypeError, ValueError):
                        return False
            else:
                _same = globals()["_same"]
            col = {}
            smodel = {}
            defined_all = complete
            for g in ref["groups"]:
                for m in ref["keys"]:
                    if not complete:
                        continue
                    c = [table[sn][g][m] for sn in file_names]
                    col[(g, m)] = c
                    if any(x == "skip" for x in c):
                        defined_all = False
                        continue
                    vals = [x for x in c if x is not None]
                    if not vals:
                        defined_all = False
                        self.note("summary_all_missing_column")
                        continue
                    big = max(abs(x) for x in vals)
                    if big > 1e150:
                        defined_all = False  # squares overflow in any implementation of the standard deviation
                        continue
                    if len(vals) < len(c):
                        self.note("summary_with_missing")
                    if len(vals) >= 3 and big > 0 and (max(vals) - min(vals)) < 1e-6 * big and max(vals) != min(vals):
                        self.note("summary_cancellation_prone_column")
                    smodel[(g, m)] = stats(vals) + (big, len(vals))

            def check_summary(sm, g, m, clause, where):
                avg, std, mn, mx, big, n = smodel[(g, m)]
                try:
                    got = (sm.avg, sm.std, sm.min, sm.max)
                except Exception as e:  # noqa: BLE001
                    self.v(clause, f"{where} {g!r}/{m}: reading the summary raised {type(e).__name__}")
                    return
                if got[2] != mn or got[3] != mx:
                    self.v(clause, f"{where} {g!r}/{m}: min/max {got[2]!r}/{got[3]!r}, expected {mn!r}/{mx!r} over {n} finite values")
                elif not close(got[0], avg, big) or not close(got[1], std, big):
                    self.v(clause, f"{where} {g!r}/{m}: avg/std {got[0]!r}/{got[1]!r}, expected {avg!r}/{std!r} over {n} finite values")
                else:
                    self.note("summary_checked")

            def q_one(sn):
                try:
                    one = st.get_one_subject(sn)
                except Exception as e:  # noqa: BLE001
                    self.v("one_subject", f"get_one_subject({sn!r}) raised {type(e).__name__}: {str(e)[:120]}")
                    return
                for g, tm in table[sn].items():
                    for m, exp in tm.items():
                        got = one.get(g, {}).get(m, "absent") if isinstance(one, dict) else "absent"
                        if not _same(got, exp):
                            self.v("one_subject", f"get_one_subject({sn!r})[{g!r}][{m}] = {got!r}, expected {exp!r} (query #{self._qn})")
                            return
                self.note("one_subject_checked")

            def q_get(g, m, remove):
                try:
                    got = list(st.get(g, m, remove_nones=True) if remove else st.get(g, m))
                except Exception as e:  # noqa: BLE001
                    self.v("value_roundtrip", f"{g!r}/{m}: Panoptica_Statistic.get raised {type(e).__name__}: {str(e)[:120]}")
                    return
                exp = [(sn, table[sn][g][m]) for sn in file_names if sn in table]
                if remove:
                    if not complete or any(e == "skip" for _, e in exp):
                        return
                    want = [e for _, e in exp if e is not None]
                    if len(got) != len(want) or any(not _same(a, b) for a, b in zip(got, want)):
                        self.v("summary", f"{g!r}/{m}: get(remove_nones=True) returned {len(got)} values, the model has {len(want)} finite values (or they differ)")
                    return
                if len(got) != len(file_names):
                    self.v("value_roundtrip", f"{g!r}/{m}: loader returned {len(got)} values for {len(file_names)} rows")
                    return
                for idx, sn in enumerate(file_names):
                    if sn not in table:
                        continue
                    e = table[sn][g][m]
                    if e == "skip":
                        self.note("value_kind_skipped")
                        continue
                    gv = got[idx]
                    if e is None:
                        self.note("loader_missing_values")
                        if gv is not None:
                            self.v("value_roundtrip", f"{sn!r}/{g!r}/{m}: result reported a missing/NaN/inf value, loader returned {gv!r}")
                    else:
                        self.note("loader_finite_values")
                        if not (_same(gv, e) if tag == "C" else (isinstance(gv, float) and model.float_bits(gv) == model.float_bits(e))):
                            clause = "value_roundtrip"
                            if isinstance(gv, float):
                                others = {model.float_bits(v) for s2 in table for g2 in table[s2] for m2, v in table[s2][g2].items() if isinstance(v, float) and (s2, g2, m2) != (sn, g, m)}
                                if model.float_bits(gv) in others:
                                    clause = "no_shift"
                            self.v(clause, f"{sn!r}/{g!r}/{m}: result reported {e!r}, loader returned {gv!r} (query #{self._qn})")

            def q_summary(g, m):
                if (g, m) not in smodel:
                    return
                try:
                    sm = st.get_summary(g, m)
                except Exception as e:  # noqa: BLE001
                    self.v("summary", f"get_summary({g!r},{m}) raised {type(e).__name__}: {str(e)[:120]}")
                    return
                check_summary(sm, g, m, "summary", "get_summary")

            def q_across_raw(m):
                # get_across_groups(metric): the columns of all groups, one after the other
                if not complete:
                    return
                try:
                    got = list(st.get_across_groups(m))
                except Exception as e:  # noqa: BLE001
                    self.v("across_groups", f"get_across_groups({m}) raised {type(e).__name__}: {str(e)[:120]}")
                    return
                want = [table[sn][g][m] for g in ref["groups"] for sn in file_names]
                if any(w == "skip" for w in want):
                    return
                if len(got) != len(want) or any(not _same(x, w) for x, w in zip(got, want)):
                    self.v("across_groups", f"get_across_groups({m}) returned {len(got)} values, expected the {len(want)} entries of all groups in order")
                else:
                    self.note("across_raw_checked")
    
            def q_across():
                if not defined_all or not ref["groups"]:
                    return
                try:
                    acr = st.get_summary_across_groups()
                except Exception as e:  # noqa: BLE001
                    self.v("across_groups", f"get_summary_across_groups raised {type(e).__name__}: {str(e)[:120]}")
                    return
                check_across(acr, "get_summary_across_groups")

            def check_across(acr, where):
                for m in ref["keys"]:
                    avgs = [smodel[(g, m)][0] for g in ref["groups"]]
                    big = max(abs(x) for x in avgs)
                    big = max(big, max(smodel[(g, m)][4] for g in ref["groups"]))
                    avg, std, mn, mx = stats(avgs)
                    try:
                        sm = acr[m]
                        got = (sm.avg, sm.std, sm.min, sm.max)
                    except Exception as e:  # noqa: BLE001
                        self.v("across_groups", f"{where}: {m} missing or unreadable ({type(e).__name__})")
                        continue
                    if not (close(got[0], avg, big) and close(got[1], std, big) and close(got[2], mn, big) and close(got[3], mx, big)):
                        self.v("across_groups", f"{where} {m}: {got!r}, expected {(avg, std, mn, mx)!r}")
                    else:
                        self.note("across_groups_checked")

            def q_dict():
                if not defined_all or not ref["groups"]:
                    return
                inc = rng.random() < 0.5
                try:
                    d = st.get_summary_dict(include_across_group=inc)
                except Exception as e:  # noqa: BLE001
                    self.v("summary", f"get_summary_dict raised {type(e).__name__}: {str(e)[:120]}")
                    return
                for g in ref["groups"]:
                    for m in ref["keys"]:
                        try:
                            sm = d[g][m]
                        except Exception:  # noqa: BLE001
                            self.v("summary", f"get_summary_dict lacks {g!r}/{m}")
                            continue
                        check_summary(sm, g, m, "summary", "get_summary_dict")
                if inc and "across_groups" not in ref["groups"]:
                    if "across_groups" in d:
                        check_across(d["across_groups"], "get_summary_dict")
                    else:
                        self.v("across_groups", "get_summary_dict(include_across_group=True) has no across_groups entry")

            queries = []
            for sn in table:
                queries.append((q_one, (sn,)))
            for g in ref["groups"]:
                for m in ref["keys"]:
                    queries.append((q_get, (g, m, False)))
                    queries.append((q_summary, (g, m)))
                    if rng.random() < 0.3:
                        queries.append((q_get, (g, m, True)))
            for m in ref["keys"]:
                if rng.random() < 0.5 and tag != "Bperm":  # the order of groups follows the columns
                    queries.append((q_across_raw, (m,)))
            queries.append((q_across, ()))
            queries.append((q_dict, ()))
            return queries, smodel, complete

        queries, smodel, complete = make_queries(st, file_names, table, "A")
        # a second statistics object in the same process: same subjects, groups, metrics and
        # missing-value pattern, other numbers (every finite field x of the file becomes
        # x/2 + 1.25); its model is the parsed text of the derived file.  Queries on the two
        # objects are interleaved, so state shared between objects shows.
        if second_object and complete and len(rows) >= 2 and rng.random() < 0.6:
            import csv

            cells = [(g, m) for g in ref["groups"] for m in ref["keys"]]
            rows_b, table_b = [], {}
            for r in rows[1:]:
                nr = [r[0]]
                table_b[r[0]] = {g: {} for g in ref["groups"]}
                for (g, m), f in zip(cells, r[1:]):
                    v = _field_value(f)
                    if v is not None and abs(v) < 1e150:
                        f = repr(v / 2 + 1.25)
                    nr.append(f)
                    table_b[r[0]][g][m] = _field_value(f) if table[r[0]][g][m] != "skip" else "skip"
                rows_b.append(nr)
            # ... and, in half of the cases, with its columns in another order (any order of the
            # "<group>-<metric>" columns is a valid table): metric order shuffled inside each
            # group's block, or all columns shuffled
            header_b = list(rows[0])
            layout = rng.choice(["same", "same", "block", "full"])
            if layout != "same" and len(cells) > 1:
                idx = list(range(len(cells)))
                if layout == "full":
                    rng.shuffle(idx)
                else:
                    nk = len(ref["keys"])
                    idx = []
                    for gi in range(len(ref["groups"])):
                        blk = list(range(gi * nk, (gi + 1) * nk))
                        rng.shuffle(blk)
                        idx.extend(blk)
                header_b = [rows[0][0]] + [rows[0][1 + i] for i in idx]
                rows_b = [[r[0]] + [r[1 + i] for i in idx] for r in rows_b]
                self.note("second_table_columns_" + layout)
            pb = self.path("other_" + fname)
            with open(pb, "w", encoding="utf8", newline="") as fh:
                wr = csv.writer(fh, delimiter="\t", lineterminator="\n")
                wr.writerow(header_b)
                for r in rows_b:
                    wr.writerow(r)
            try:
                st_b = st_mod.Panoptica_Statistic.from_file(pb)
            except Exception as e:  # noqa: BLE001
                self.v("summary", f"loading a second table of the same shape raised {type(e).__name__}: {str(e)[:120]}")
                st_b = None
            if st_b is not None:
                qb, _, _ = make_queries(st_b, file_names, table_b, "B" if layout == "same" else "Bperm")
                queries = queries + qb
                self.note("two_objects_interleaved")
        # a third object built directly through the public constructor from in-memory values of
        # mixed scalar types (Python floats and ints, numpy float64 / int64); the values
        # are small dyadic rationals, exact in every one of these types
        if second_object and complete and len(rows) >= 2 and rng.random() < 0.4:
            import numpy as _np

            # (no float32: numpy averages an all-float32 column in float32 arithmetic, which is a
            #  precision matter of the caller's own data type, not something C20 speaks about)
            kinds = [float, _np.float64, _np.int64, int]
            vd, table_c = {}, {sn: {g: {} for g in ref["groups"]} for sn in file_names}
            for g in ref["groups"]:
                vd[g] = {}
                for m in ref["keys"]:
                    colv = []
                    for sn in file_names:
                        if table[sn][g][m] is None or table[sn][g][m] == "skip" or rng.random() < 0.15:
                            colv.append(None)
                            table_c[sn][g][m] = None
                        else:
                            k = rng.choice(kinds)
                            x = rng.randint(-8, 64) if k in (_np.int64, int) else rng.randint(-16, 256) / 8.0
                            colv.append(k(x))
                            table_c[sn][g][m] = float(x)
                    vd[g][m] = colv
            try:
                st_c = st_mod.Panoptica_Statistic(subj_names=list(file_names), value_dict=vd)
            except Exception as e:  # noqa: BLE001
                self.v("summary", f"constructing a statistics object from in-memory values raised {type(e).__name__}: {str(e)[:120]}")
                st_c = None
            if st_c is not None:
                qc, _, _ = make_queries(st_c, file_names, table_c, "C")
                queries = queries + qc
                self.note("third_object_from_memory")
        # a copy of the first object, as a worker process or a cache would hold it
        if second_object and rng.random() < 0.4:
            import copy as _copy

            how = rng.choice(["pickle", "deepcopy", "copy"])
            try:
                st_p = pickle.loads(pickle.dumps(st)) if how == "pickle" else (_copy.deepcopy(st) if how == "deepcopy" else _copy.copy(st))
            except Exception as e:  # noqa: BLE001
                self.v("summary", f"copying the statistics object ({how}) raised {type(e).__name__}: {str(e)[:120]}")
                st_p = None
            if st_p is not None:
                qp, _, _ = make_queries(st_p, file_names, table, "P")
                queries = queries + qp
                self.note("copied_object_queried")
        self._qn = 0
        for rnd in range(2):
            rng.shuffle(queries)
            for fn, a in queries:
                self._qn += 1
                fn(*a)
        self.note("query_history_len", self._qn)
        # order independence: the same rows in another order give the same summaries
        if second_object and complete and len(rows) > 2:
            import csv

            perm = rows[1:]
            rng.shuffle(perm)
            if perm == rows[1:]:
                perm.reverse()
            p2 = self.path("perm_" + fname)
            with open(p2, "w", encoding="utf8", newline="") as fh:
                wr = csv.writer(fh, delimiter="\t", lineterminator="\n")
                wr.writerow(rows[0])
                for r in perm:
                    wr.writerow(r)
            try:
                st2 = st_mod.Panoptica_Statistic.from_file(p2)
            except Exception as e:  # noqa: BLE001
                self.v("order_independent", f"loader failed on permuted rows: {type(e).__name__}")
                return
            for (g, m) in smodel:
                try:
                    a, b = st.get_summary(g, m), st2.get_summary(g, m)
                    big = smodel[(g, m)][4]
                    same = a.min == b.min and a.max == b.max and close(a.avg, b.avg, big) and close(a.std, b.std, big)
                except Exception as e:  # noqa: BLE001
                    self.v("order_independent", f"{g!r}/{m}: get_summary raised {type(e).__name__} on original or permuted rows")
                    continue
                if not same:
                    self.v("order_independent", f"{g!r}/{m}: summary depends on row order")
            for sn in file_names:
                try:
                    same = _same_tree(st.get_one_subject(sn), st2.get_one_subject(sn))
                except Exception as e:  # noqa: BLE001
                    self.v("order_independent", f"get_one_subject({sn!r}) raised {type(e).__name__} on original or permuted rows")
                    continue
                if not same:
                    self.v("order_independent", f"get_one_subject({sn!r}) depends on row order")
            self.note("order_checked")

    # ------------------------------------------------------------------ driver
    # ------------------------------------------------------------------ results of one image
    def phase_result(self, harness_error=None):
        return {
            "violations": [v.as_list() for v in self.viol], "harness_error": harness_error, "notes": dict(self.notes),
            "reported": [[k[0], k[1], v] for k, v in self.reported.items()],
            "logs": [[(e[1], e[2], e[3]) for e in lg] for lg in self.logs], "steps": list(self.steps_per_phase),
            "taken": list(self.chooser.taken), "fired": dict(self.fired), "faults_fired": list(self.faults_fired),
            "states": sorted(self.states), "stats": dict(WORLD.stats), "nontrivial": self.nontrivial,
            "sim_time": WORLD.clock.covered if WORLD.clock else 0.0,
            "soft_hit": sorted(list(x) for x in self.soft_hit),
        }

    def merge(self, r):
        self.viol.extend(Violation(c, d) for c, d in r["violations"])
        for k, n in r["notes"].items():
            self.notes[k] = self.notes.get(k, 0) + n
        for f, sn, rep in r.get("reported", []):
            self.reported[(f, sn)] = rep
        self.logs.extend(r.get("logs", []))
        self.steps_per_phase.extend(r.get("steps", []))
        if "taken" in r:
            self.schedule_taken.append(r["taken"])
        for k, n in r.get("fired", {}).items():
            self.fired[k] = self.fired.get(k, 0) + n
        self.faults_fired.extend(r.get("faults_fired", []))
        self.states.update(r.get("states", []))
        for k, n in r.get("stats", {}).items():
            self.stats_acc[k] = self.stats_acc.get(k, 0) + n
        self.nontrivial = self.nontrivial or r.get("nontrivial", False)
        self.sim_time += r.get("sim_time", 0.0)
        self.soft_hit.update(tuple(x) for x in r.get("soft_hit", []))


def _guard(fn):
    def run(*a):
        try:
            return fn(*a)
        finally:
            WORLD.sched = None
            WORLD.armed = False
    run.__name__ = fn.__name__
    return run


@_guard
def _reference_image(plan: dict, root: str) -> dict:
    """Its own pristine image: the sequential reference session(s) only."""
    ex = Exec(plan, root)
    ex.compute_ref()
    return {"ref": {str(int(lt)): r for lt, r in ex.ref.items()}, "violations": [v.as_list() for v in ex.viol], "unusable": any(r is None for r in ex.ref.values())}


@_guard
def _phase_image(plan: dict, root: str, pi: int) -> dict:
    """Its own pristine image: one phase (the sessions that run at the same time)."""
    ex = Exec(plan, root)
    ex.load_ref()
    ex.begin_phase(pi)
    ex.world()
    ex.run_phase(pi, plan["phases"][pi])
    WORLD.armed = False
    return ex.phase_result(getattr(ex, "harness_error", None) or check_audit())


@_guard
def _loader_image(plan: dict, root: str, reported: list) -> dict:
    """Its own pristine image: the statistics loader and the query history (C18 / C20)."""
    ex = Exec(plan, root)
    ex.load_ref()
    ex.begin_phase(len(plan["phases"]))
    ex.world()
    WORLD.armed = False
    for f, sn, rep in reported:
        ex.reported[(f, sn)] = rep
    ex.loader_oracles()
    r = ex.phase_result(None)
    r.pop("taken", None)
    return r


def execute(plan: dict, root: str) -> dict:
    """Orchestrator; runs in the run's own image and executes no panoptica code itself.

    reference  -> an image of its own (so nothing the reference session warms or touches can
                  leak into the run under test);
    each phase -> an image of its own, forked from this (pristine) one, or - for the phases
                  listed in knobs.alt_phases - from the pristine template of another interpreter
                  that runs under a different str-hash seed: a restarted run is a new process;
    loader     -> an image of its own."""
    from . import altserver, runner

    os.makedirs(root, exist_ok=True)
    pre = []
    if plan.get("ref_cache") is None:
        st, val = runner.child_call(_reference_image, (plan, root), timeout=150)
        if st != "ok":
            return {"violations": [], "harness_error": f"reference image failed: {str(val)[:800]}"}
        pre = val["violations"]
        if val.get("unusable"):
            return {"violations": pre, "harness_error": None, "steps": [], "schedule": [], "digest": _h(pre), "fired": {}, "notes": {"reference_unusable": 1},
                    "stats": {}, "states": [], "nontrivial": False, "faults_fired": [], "invalid_inputs": [], "sim_time": 0.0, "final_rows": {}, "files_digest": ""}
        plan = dict(plan, ref_cache=val["ref"])
    ex = Exec(plan, root)
    ex.stats_acc = {}
    ex.sim_time = 0.0
    ex.viol.extend(Violation(c, d) for c, d in pre)
    ex.load_ref()
    used = {op[3] for ph in plan["phases"] for sess in ph["sessions"] for ops in sess["tasks"] for op in ops if op[0] == "eval"}
    phases = plan["phases"]
    poison = {k for k, v in plan["inputs"].items() if isinstance(v, dict) and v.get("poison")}
    if (ex.invalid - poison) & used:
        # the sequential reference evaluation itself raises for a generated input: the plan is
        # outside every property's quantifier (valid evaluations); no verdict
        ex.note("skipped_invalid_generated_input")
        phases = []
    herr = None
    alt = set(plan["knobs"].get("alt_phases", []))
    opt = set(plan["knobs"].get("opt_phases", []))
    if phases:
        ex.init_files()
    for pi in range(len(phases)):
        if pi in opt:
            # a restart under `python -O`: assert statements of the library do not execute
            st, val = altserver.call("aggsim_phase", (plan, root, pi), timeout=150, which="opt")
            ex.note("phase_in_optimised_interpreter")
        elif pi in alt:
            st, val = altserver.call("aggsim_phase", (plan, root, pi), timeout=150)
            ex.note("phase_in_other_interpreter")
        else:
            st, val = runner.child_call(_phase_image, (plan, root, pi), timeout=150)
        if st != "ok":
            herr = f"phase {pi} image failed: {str(val)[:800]}"
            break
        if val.get("harness_error"):
            herr = val["harness_error"]
        ex.merge(val)
    if phases and herr is None:
        ex.final_oracles()
        if plan.get("check_loader"):
            rep = [[k[0], k[1], v] for k, v in ex.reported.items()]
            if len(phases) in alt:
                st, val = altserver.call("aggsim_loader", (plan, root, rep), timeout=150)
            else:
                st, val = runner.child_call(_loader_image, (plan, root, rep), timeout=150)
            if st != "ok":
                herr = f"loader image failed: {str(val)[:800]}"
            else:
                ex.merge(val)
    res = {
        "violations": [v.as_list() for v in ex.viol],
        "harness_error": herr,
        "steps": ex.steps_per_phase,
        "schedule": ex.schedule_taken,
        "digest": _h(ex.logs),
        "fired": dict(ex.fired),
        "notes": dict(ex.notes),
        "stats": dict(ex.stats_acc),
        "states": sorted(ex.states),
        "nontrivial": ex.nontrivial,
        "faults_fired": ex.faults_fired,
        "invalid_inputs": sorted(ex.invalid),
        "sim_time": ex.sim_time,
        "final_rows": ex.final_stats,
        "files_digest": _h([(f, model.read_bytes(ex.path(f))) for f in sorted(plan["files"])]),
    }
    if plan.get("want_ref"):
        res["ref"] = plan["ref_cache"]
    return res
