"""A second pristine template interpreter, running under a different str-hash seed.

A restarted run is a new operating-system process: new interpreter state and a new hash seed
(set/dict-of-str iteration orders change).  Phases that a plan marks as `alt_phases` are executed
in images forked from this server's pristine template instead of from the run's own image.

Protocol (AF_UNIX stream socket): request = 4-byte length + pickle((name, args, timeout));
reply = 4-byte length + pickle(("ok", value) | ("error", text)).  The server is single-threaded
and forks one child per request; it exits when its stdin reaches end-of-file (driver gone)."""

from __future__ import annotations

import os
import pickle
import select
import signal
import socket
import struct
import subprocess
import sys
import time
import traceback

ENV_SOCK = "VERIF_ALT_SOCK"
ENV_OPT_SOCK = "VERIF_OPT_SOCK"  # a third template: python -O (assert statements stripped), yet another hash seed
_proc = None
_procs = {}


def _registry():
    from . import aggsim

    return {"aggsim_phase": aggsim._phase_image, "aggsim_loader": aggsim._loader_image}


def _recv_exact(conn, n, deadline=None):
    buf = b""
    while len(buf) < n:
        if deadline is not None:
            left = deadline - time.monotonic()
            if left <= 0:
                return None
            r, _, _ = select.select([conn], [], [], min(left, 5.0))
            if not r:
                continue
        b = conn.recv(min(1 << 16, n - len(buf)))
        if not b:
            return None
        buf += b
    return buf


def serve(sock_path: str):
    import gc
    import warnings

    from . import install

    install.install()
    reg = _registry()
    if os.path.exists(sock_path):
        os.unlink(sock_path)
    srv = socket.socket(socket.AF_UNIX, socket.SOCK_STREAM)
    srv.bind(sock_path)
    srv.listen(128)
    signal.signal(signal.SIGCHLD, signal.SIG_IGN)  # children are reaped by the kernel
    sys.stdout.write("READY\n")
    sys.stdout.flush()
    while True:
        r, _, _ = select.select([srv, sys.stdin], [], [], 5.0)
        if sys.stdin in r:
            if not os.read(sys.stdin.fileno(), 1):
                break
        if srv not in r:
            continue
        conn, _ = srv.accept()
        pid = os.fork()
        if pid == 0:
            code = 0
            try:
                srv.close()
                from .runner import die_with_parent

                die_with_parent()
                gc.disable()
                warnings.simplefilter("ignore")
                signal.signal(signal.SIGCHLD, signal.SIG_DFL)
                signal.signal(signal.SIGINT, signal.SIG_IGN)
                hdr = _recv_exact(conn, 4)
                (n,) = struct.unpack(">I", hdr)
                name, args, timeout = pickle.loads(_recv_exact(conn, n))
                signal.signal(signal.SIGALRM, signal.SIG_DFL)
                signal.alarm(max(1, int(timeout)))
                sys.stdout = open(os.devnull, "w")
                try:
                    val = ("ok", reg[name](*args))
                except BaseException as e:  # noqa: BLE001
                    val = ("error", f"{type(e).__name__}: {e}\n{traceback.format_exc()[-3000:]}")
                data = pickle.dumps(val, protocol=pickle.HIGHEST_PROTOCOL)
                conn.sendall(struct.pack(">I", len(data)) + data)
                conn.close()
            except BaseException:  # noqa: BLE001
                code = 3
            finally:
                os._exit(code)
        conn.close()
    try:
        os.unlink(sock_path)
    except OSError:
        pass


def start(sock_path: str, hashseed: int, optimize: bool = False):
    """Launch a server (does not wait for it to be ready)."""
    global _proc
    verif = os.path.dirname(os.path.dirname(os.path.abspath(__file__)))
    env = {**os.environ, "PYTHONHASHSEED": str(hashseed), "PYTHONPATH": verif}
    env.pop("PYTHONOPTIMIZE", None)
    argv = [sys.executable] + (["-O"] if optimize else []) + ["-m", "sim.altserver", sock_path]
    p = subprocess.Popen(argv, stdin=subprocess.PIPE, stdout=subprocess.PIPE, stderr=subprocess.DEVNULL, env=env, cwd=verif)
    if optimize:
        _procs["opt"] = p
        os.environ[ENV_OPT_SOCK] = sock_path
    else:
        _procs["alt"] = p
        _proc = p
        os.environ[ENV_SOCK] = sock_path
    return p


def wait_ready(timeout=120.0, which="alt"):
    _proc = _procs.get(which)
    if _proc is None:
        return False
    deadline = time.monotonic() + timeout
    fd = _proc.stdout.fileno()
    buf = b""
    while time.monotonic() < deadline:
        r, _, _ = select.select([fd], [], [], 1.0)
        if r:
            b = os.read(fd, 64)
            if not b:
                return False
            buf += b
            if b"READY" in buf:
                return True
        if _proc.poll() is not None:
            return False
    return False


def stop():
    global _proc
    for which, p in list(_procs.items()):
        try:
            p.stdin.close()
        except OSError:
            pass
        try:
            p.wait(timeout=10)
        except subprocess.TimeoutExpired:
            p.kill()
        _procs.pop(which, None)
    _proc = None


def call(name: str, args, timeout=150.0, which="alt"):
    path = os.environ.get(ENV_OPT_SOCK if which == "opt" else ENV_SOCK)
    if not path:
        return ("error", f"no alternate-interpreter server for '{which}'")
    try:
        c = socket.socket(socket.AF_UNIX, socket.SOCK_STREAM)
        c.connect(path)
        data = pickle.dumps((name, args, timeout), protocol=pickle.HIGHEST_PROTOCOL)
        c.sendall(struct.pack(">I", len(data)) + data)
        deadline = time.monotonic() + timeout + 15
        hdr = _recv_exact(c, 4, deadline)
        if hdr is None:
            return ("error", "alternate-interpreter image timed out or died")
        (n,) = struct.unpack(">I", hdr)
        body = _recv_exact(c, n, deadline)
        c.close()
        if body is None:
            return ("error", "alternate-interpreter image: truncated reply")
        return pickle.loads(body)
    except OSError as e:
        return ("error", f"alternate-interpreter server unreachable: {e}")


if __name__ == "__main__":
    serve(sys.argv[1])
