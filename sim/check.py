"""Check driver: seeded search over plans, known-findings handling, minimisation, replay,
determinism sampling and evidence.  Exit codes: 0 held, 1 violation (with replay file),
2 harness error (never a verdict)."""

from __future__ import annotations

import argparse
import copy
import json
import os
import re
import shutil
import subprocess
import sys
import time

VERIF = os.path.dirname(os.path.dirname(os.path.abspath(__file__)))
KNOWN_FILE = os.path.join(VERIF, "known_findings.json")


def log(*a):
    print(*a, flush=True)


# --------------------------------------------------------------------------- property table
def _props():
    from . import aggsim, histsim, plans

    return {
        "C15": {
            "engine": histsim.execute, "gen": histsim.plan_c15, "level": "exploration",
            "clauses": ["input_unmodified", "history_independent", "option_independent", "worker_independent", "keys_stable", "config_stable"],
            "quick": 4000, "thorough": 100000, "shrink": histsim.candidates,
            "required_probes": ["compared_history_independent", "compared_option_independent", "compared_worker_independent", "pool_out_of_order", "clock_jump", "set_log_group_times"],
        },
        "C16": {
            "engine": aggsim.execute, "gen": plans.plan_c16, "level": "exploration",
            "clauses": ["header_once", "exactly_once", "row_intact", "no_exception", "no_deadlock", "stat_complete_rows"],
            "quick": 3000, "thorough": 200000,
            "required_probes": ["blocked", "duplicate_submission_refused", "stat_built_nonempty", "stat_on_header_only_raised", "skipped_finished", "pool_out_of_order"],
        },
        "C17": {
            "engine": aggsim.execute, "gen": plans.plan_c17, "level": "fault_enumeration",
            "clauses": ["header_once", "exactly_once", "row_intact", "finished_skipped", "unfinished_redone", "no_exception", "no_deadlock"],
            "quick": 1500, "thorough": 60000, "sweeps_quick": 24, "sweeps_thorough": 3000,
            "required_probes": ["kill", "interrupt", "restart_on_absent", "restart_on_empty", "restart_on_header", "restart_on_rows", "restart_with_stale_claims",
                                "skipped_finished", "evaluated_unfinished", "sweep_crash_points"],
        },
        "C18": {
            "engine": aggsim.execute, "gen": plans.plan_c18, "level": "exploration",
            "clauses": ["loader_no_exception", "names", "value_roundtrip", "no_shift"],
            "quick": 3000, "thorough": 200000,
            "required_probes": ["loader_checked", "loader_multi_group", "loader_missing_values", "loader_finite_values", "group_name_with_dash", "awkward_subject_name", "refused_different_setup"],
        },
        "C20": {
            "engine": aggsim.execute, "gen": plans.plan_c20, "level": "exploration",
            "clauses": ["summary", "one_subject", "across_groups", "order_independent"],
            "quick": 3000, "thorough": 200000,
            "required_probes": ["summary_checked", "summary_with_missing", "summary_cancellation_prone_column", "across_groups_checked", "order_checked", "one_subject_checked"],
        },
    }


# --------------------------------------------------------------------------- known findings
def load_known(prop):
    if not os.path.exists(KNOWN_FILE):
        return []
    with open(KNOWN_FILE) as f:
        data = json.load(f)
    return [e for e in data.get("findings", []) if e.get("property") == prop]


def matches_known(entry, clause, detail, plan):
    m = entry.get("match", {})
    if clause not in m.get("clauses", [entry.get("clause")]):
        return False
    rx = m.get("detail_regex")
    if rx and not re.search(rx, detail):
        return False
    feat = m.get("plan_feature")
    if feat and not plan_feature(feat, plan):
        return False
    return True


def plan_feature(name, plan):
    if name == "initial_empty":
        return any(f.get("initial") == "empty" for f in plan.get("files", {}).values())
    if name == "sibling":
        return len(plan.get("files", {})) > 1
    if name == "any":
        return True
    raise ValueError(f"unknown plan feature {name}")


# --------------------------------------------------------------------------- one execution
def exec_plan(cfg, plan, base, tag, timeout=180.0):
    from . import runner

    root = os.path.join(base, tag)
    st, res = runner.child_call(cfg["engine"], (plan, root), timeout=timeout, root=root)
    if st != "ok":
        return {"harness_error": res, "violations": []}
    return res


def run_summary(res):
    keep = ("violations", "harness_error", "steps", "digest", "files_digest", "fired", "notes", "stats", "nontrivial",
            "faults_fired", "sim_time", "invalid_inputs", "states", "schedule", "probes", "opsig")
    return {k: res[k] for k in keep if k in res}


# --------------------------------------------------------------------------- main search
class Acc:
    """Evidence accumulator (counters are measured, never constants)."""

    def __init__(self):
        self.runs = 0
        self.steps = 0
        self.sim_time = 0.0
        self.fired = {}
        self.notes = {}
        self.stats = {}
        self.digests = set()
        self.nontrivial_digests = set()
        self.states = set()
        self.fault_at = {}
        self.harness_errors = []
        self.invalid = 0
        self.samples = []
        self.foreign = {}
        self.known_hits = {}
        self.viol_runs = 0

    def add(self, plan, res):
        self.runs += 1
        self.steps += sum(res.get("steps", []))
        self.sim_time += res.get("sim_time", 0.0)
        for k, n in res.get("fired", {}).items():
            self.fired[k] = self.fired.get(k, 0) + n
        for k, n in res.get("notes", {}).items():
            self.notes[k] = self.notes.get(k, 0) + n
        for k, n in res.get("stats", {}).items():
            self.stats[k] = self.stats.get(k, 0) + n
        for k, n in res.get("probes", {}).items():
            self.notes["probe:" + k] = self.notes.get("probe:" + k, 0) + n
        d = res.get("digest")
        if d:
            self.digests.add(d)
            if res.get("nontrivial"):
                self.nontrivial_digests.add(d)
        self.states.update(res.get("states", []))
        for f in res.get("faults_fired", []):
            key = f"{f[1]}@{f[4]}"
            self.fault_at[key] = self.fault_at.get(key, 0) + 1
        if res.get("invalid_inputs"):
            self.invalid += 1


def sample_of(plan):
    p = copy.deepcopy(plan)
    for k, v in list(p.get("inputs", {}).items()):
        if isinstance(v, dict) and "pred" in v:
            p["inputs"][k] = {"shape": v["shape"], "dtype": v["dtype"], "order": v.get("order"), "pred_nonzero": sum(1 for x in v["pred"] if x), "ref_nonzero": sum(1 for x in v["ref"] if x)}
    if p.get("spec", {}).get("stub"):
        p["spec"]["stub"] = {"groups": p["spec"]["stub"]["groups"], "keys": p["spec"]["stub"]["keys"], "values": "(generated table omitted)"}
    return p


def main(argv=None):
    ap = argparse.ArgumentParser(prog="check")
    ap.add_argument("prop")
    ap.add_argument("--tier", default=os.environ.get("VERIF_TIER", "quick"), choices=["quick", "thorough"])
    ap.add_argument("--seed", type=int, default=int(os.environ.get("VERIF_SEED", "0")))
    ap.add_argument("--runs", type=int, default=None)
    ap.add_argument("--sweeps", type=int, default=None)
    ap.add_argument("--workers", type=int, default=int(os.environ.get("VERIF_WORKERS", "0")) or None)
    ap.add_argument("--replay", default=None)
    ap.add_argument("--digests", default=None, help="internal: print digests of the given run indices")
    ap.add_argument("--no-evidence", action="store_true")
    ap.add_argument("--no-detcheck", action="store_true")
    ap.add_argument("--keep-going", action="store_true", help="report counts per clause instead of stopping at the first violation")
    ap.add_argument("--wall-cap", type=float, default=None)
    ap.add_argument("--with-tests", action="store_true", help="selftest-mutants: also run the baseline suite on each mutant")
    ap.add_argument("--only", default=None, help="selftest-mutants: comma-separated mutant names")
    ap.add_argument("--no-regression", action="store_true", help="skip the stored regression replays (used by the sensitivity self-test to judge the search alone)")
    args = ap.parse_args(argv)

    if args.prop.startswith("selftest"):
        from . import selftest

        return selftest.main(args)

    t0 = time.time()
    if args.replay:
        # the str-hash seeds of the interpreters are part of what a run depends on: a replay
        # file records them and is replayed under the same ones, in a fresh interpreter
        try:
            with open(args.replay) as f:
                hs = json.load(f).get("hashseed")
        except Exception:  # noqa: BLE001
            hs = None
        if hs is not None and os.environ.get("PYTHONHASHSEED") != str(hs):
            os.execve(sys.executable, [sys.executable, os.path.join(VERIF, "check")] + sys.argv[1:], {**os.environ, "PYTHONHASHSEED": str(hs)})
    try:
        from . import altserver, runner

        need_alt = args.prop in ("C17", "C18", "C20")
        need_opt = args.prop == "C17"
        if need_alt:
            main_hs = int(os.environ.get("PYTHONHASHSEED", "0") or 0)
            altserver.start(os.path.join(runner.scratch_dir(args.prop + "-alt"), "alt.sock"), (main_hs + 1) % 4294967296)
            if need_opt:
                altserver.start(os.path.join(runner.scratch_dir(args.prop + "-alt"), "opt.sock"), (main_hs + 2) % 4294967296, optimize=True)
        from . import install

        install.install()
        from . import shrink

        if need_alt and not (altserver.wait_ready(180) and (not need_opt or altserver.wait_ready(180, "opt"))):
            log("HARNESS-ERROR alternate-interpreter server did not start")
            altserver.stop()
            return 2

        props = _props()
        if args.prop not in props:
            log(f"unknown property {args.prop}")
            return 2
        cfg = props[args.prop]
        base = runner.scratch_dir(args.prop)
        try:
            if args.replay:
                return do_replay(args, cfg, base)
            if args.digests:
                return do_digests(args, cfg, base)
            return do_search(args, cfg, base, t0)
        finally:
            shutil.rmtree(base, ignore_errors=True)
            if need_alt:
                altserver.stop()
                shutil.rmtree(runner.scratch_dir(args.prop + "-alt"), ignore_errors=True)
    except Exception as e:  # noqa: BLE001
        import traceback

        log(f"HARNESS-ERROR {type(e).__name__}: {e}")
        traceback.print_exc()
        return 2


# --------------------------------------------------------------------------- replay
def do_replay(args, cfg, base):
    with open(args.replay) as f:
        rp = json.load(f)
    plan = rp["plan"]
    res = exec_plan(cfg, plan, base, "replay")
    if res.get("harness_error"):
        log(f"HARNESS-ERROR during replay: {res['harness_error']}")
        return 2
    want = rp.get("clause")
    hits = [v for v in res["violations"] if v[0] == want] if want else res["violations"]
    log(json.dumps({"replay": args.replay, "clause": want, "reproduced": bool(hits), "violations": res["violations"][:10], "digest": res.get("digest")}))
    if hits:
        log(f"VIOLATION property={args.prop} replay={args.replay}")
        return 1
    return 0


def do_digests(args, cfg, base):
    from . import runner

    idxs = [int(x) for x in args.digests.split(",") if x]
    out = {}

    def job(i):
        plan = cfg["gen"](runner.run_seed(args.seed, args.prop, i))
        res = exec_plan(cfg, plan, base, f"d{i}")
        return {"d": [res.get("digest"), res.get("files_digest"), sorted({v[0] for v in res.get("violations", [])}), res.get("harness_error")]}

    for j, r in runner.parallel_jobs(job, idxs, nworkers=args.workers):
        out[str(j)] = r.get("d")
    print("DIGESTS " + json.dumps(out, sort_keys=True), flush=True)
    return 0


# --------------------------------------------------------------------------- search
def do_search(args, cfg, base, t0):
    from . import runner, shrink

    prop = args.prop
    known = load_known(prop)
    acc = Acc()
    out_lines = []
    exit_code = 0

    # 1. stored replays of this property: known findings must still fail (and are then
    #    suppressed by signature), fixed ones must pass (regression seeds)
    active_known = []
    for e in known:
        if args.no_regression and e.get("status") == "fixed":
            continue
        rp_path = os.path.join(VERIF, e["replay"]) if e.get("replay") else None
        reproduced = None
        if rp_path and os.path.exists(rp_path):
            with open(rp_path) as f:
                rp = json.load(f)
            res = exec_plan(cfg, rp["plan"], base, "known")
            if res.get("harness_error"):
                log(f"HARNESS-ERROR replaying {e['replay']}: {res['harness_error']}")
                return 2
            reproduced = any(v[0] == rp.get("clause") for v in res["violations"])
        if e.get("status") == "known":
            if reproduced is False:
                log(f"NOTE: known finding {e.get('id')} no longer reproduces on this tree (entry kept; nothing suppressed for it)")
            else:
                log(f"KNOWN-FINDING: property={prop} {e.get('what')}")
                active_known.append(e)
        elif e.get("status") == "fixed":
            acc.notes["fixed_regression_replays"] = acc.notes.get("fixed_regression_replays", 0) + 1
            if reproduced:
                log(f"VIOLATION property={prop} replay={rp_path}")
                log(f"  regression of a defect recorded as fixed: {e.get('line')}")
                exit_code = 1
    if exit_code:
        if not args.no_evidence:
            write_evidence(args, cfg, acc, t0, violations=1)
        return exit_code

    n_runs = args.runs if args.runs is not None else cfg[args.tier]
    n_sweeps = args.sweeps if args.sweeps is not None else cfg.get("sweeps_" + args.tier, 0)
    clauses = set(cfg["clauses"])
    wall_cap = args.wall_cap or (1500 if args.tier == "quick" else 6 * 3600)

    def job(j):
        kind, i = j
        seed = runner.run_seed(args.seed, prop, i)
        if kind == "r":
            plan = cfg["gen"](seed)
            res = exec_plan(cfg, plan, base, f"r{i}")
            return {"runs": [(None, run_summary(res))]}
        else:
            from . import sweep

            return sweep.sweep_job(cfg, seed, base, i)

    jobs = [("s", i) for i in range(n_sweeps)] + [("r", i) for i in range(n_runs)]
    found = {}  # clause -> (job, variant, summary)
    clause_counts = {}
    digests_by_idx = {}
    sweeps_done = 0
    sweep_points = 0
    last = [time.time()]

    def progress(done, total):
        if time.time() - last[0] > 30:
            last[0] = time.time()
            log(f"  .. {done}/{total} jobs, {acc.runs} runs, {time.time() - t0:.0f}s")

    try:
        for j, r in runner.parallel_jobs(job, jobs, nworkers=args.workers, wall_cap=wall_cap, progress=progress):
            if r.get("harness_error"):
                acc.harness_errors.append(f"job {j}: {r['harness_error'][:600]}")
                continue
            if j[0] == "s":
                sweeps_done += 1
                sweep_points += r.get("points", 0)
                acc.notes["sweep_histories"] = sweeps_done
                acc.notes["sweep_crash_points"] = sweep_points
            for variant, res in r["runs"]:
                if res.get("harness_error"):
                    acc.harness_errors.append(f"job {j} variant {variant}: {str(res['harness_error'])[:600]}")
                    continue
                plan_for_feat = None
                acc.add(None, res)
                if j[0] == "r":
                    digests_by_idx[j[1]] = [res.get("digest"), res.get("files_digest"), sorted({v[0] for v in res.get("violations", [])}), res.get("harness_error")]
                had = False
                for clause, detail in res["violations"]:
                    if clause not in clauses:
                        acc.foreign[clause] = acc.foreign.get(clause, 0) + 1
                        continue
                    if active_known:
                        if plan_for_feat is None:
                            plan_for_feat = rebuild_plan(cfg, args, j, variant)
                        hit = next((e for e in active_known if matches_known(e, clause, detail, plan_for_feat)), None)
                        if hit is not None:
                            acc.known_hits[hit["id"]] = acc.known_hits.get(hit["id"], 0) + 1
                            continue
                    had = True
                    clause_counts[clause] = clause_counts.get(clause, 0) + 1
                    if clause not in found:
                        found[clause] = (j, variant, res, detail)
                if had:
                    acc.viol_runs += 1
                if len(acc.samples) < 3 and j[0] == "r" and res.get("nontrivial"):
                    acc.samples.append({"run_index": j[1], "plan": sample_of(rebuild_plan(cfg, args, j, variant)), "steps": res.get("steps"), "digest": res.get("digest")})
    except TimeoutError as e:
        log(f"HARNESS-ERROR {e}")
        return 2

    if acc.harness_errors:
        for h in acc.harness_errors[:5]:
            log("HARNESS-ERROR " + h)
        log(f"{len(acc.harness_errors)} harness errors; no verdict")
        return 2

    if args.keep_going:
        log("clause counts: " + json.dumps(clause_counts, sort_keys=True))
        for c, (j, variant, res, detail) in sorted(found.items()):
            log(f"  first {c}: job {j} variant {variant}: {detail[:300]}")

    # 2. violations: materialise, minimise, write replay, confirm in a fresh interpreter
    replays = []
    for clause, (j, variant, res, detail) in sorted(found.items())[:3]:
        plan = rebuild_plan(cfg, args, j, variant)
        mat = shrink.materialize(plan, res)
        chk = exec_plan(cfg, mat, base, "mat")
        if not any(v[0] == clause for v in chk.get("violations", [])):
            log(f"HARNESS-ERROR materialised plan of job {j} does not reproduce clause {clause} (nondeterminism)")
            return 2

        def fails(c, clause=clause):
            r2 = exec_plan(cfg, c, base, "shr")
            return (not r2.get("harness_error")) and any(v[0] == clause for v in r2.get("violations", []))

        small, execs, steps = shrink.shrink(mat, fails, max_execs=250 if args.tier == "quick" else 600, extra_candidates=cfg.get("shrink"))
        final = exec_plan(cfg, small, base, "fin")
        fdetail = next((v[1] for v in final.get("violations", []) if v[0] == clause), detail)
        rdir = os.environ.get("VERIF_REPLAY_DIR") or os.path.join(VERIF, "replays")
        os.makedirs(rdir, exist_ok=True)
        path = os.path.join(rdir, f"{prop}-{clause}-{args.seed}-{j[0]}{j[1]}.json")
        with open(path, "w") as f:
            json.dump({"property": prop, "clause": clause, "detail": fdetail, "verif_seed": args.seed, "job": list(j), "variant": variant,
                       "hashseed": int(os.environ.get("PYTHONHASHSEED", "0") or 0),
                       "shrink_execs": execs, "shrink_steps": steps, "plan": small}, f, indent=1, sort_keys=True)
        rc = subprocess.run([sys.executable, os.path.join(VERIF, "check"), prop, "--replay", path], capture_output=True, text=True,
                            env={k_: v_ for k_, v_ in os.environ.items() if k_ not in ("VERIF_ALT_SOCK", "VERIF_OPT_SOCK")}, timeout=600)
        if rc.returncode != 1:
            log(f"HARNESS-ERROR replay of {path} in a fresh interpreter returned {rc.returncode}: {rc.stdout[-500:]} {rc.stderr[-500:]}")
            return 2
        log(f"violation of clause {clause} ({clause_counts[clause]} runs): {fdetail[:400]}")
        log(f"VIOLATION property={prop} replay={path}")
        replays.append(path)
        exit_code = 1

    # 3. determinism sample: 2 % of the seeds again, fresh interpreter, other hash seed
    if not args.no_detcheck and digests_by_idx and exit_code == 0:
        idxs = sorted(digests_by_idx)
        step = max(1, len(idxs) // max(8, len(idxs) // 50))
        sample = idxs[::step][:400]
        rc = subprocess.run([sys.executable, os.path.join(VERIF, "check"), prop, "--seed", str(args.seed), "--digests", ",".join(map(str, sample)), "--workers", "3"],
                            capture_output=True, text=True, env={**{k_: v_ for k_, v_ in os.environ.items() if k_ not in ("VERIF_ALT_SOCK", "VERIF_OPT_SOCK")}, "PYTHONHASHSEED": "4242"}, timeout=3600)
        m = re.search(r"^DIGESTS (.*)$", rc.stdout, re.M)
        if rc.returncode != 0 or not m:
            log(f"HARNESS-ERROR determinism re-run failed: rc={rc.returncode} {rc.stdout[-300:]} {rc.stderr[-300:]}")
            return 2
        other = json.loads(m.group(1))
        diff = [i for i in sample if other.get(str(i)) != digests_by_idx[i]]
        acc.notes["determinism_sample"] = len(sample)
        if diff:
            log(f"HARNESS-ERROR nondeterminism: {len(diff)} of {len(sample)} re-executed runs differ, e.g. run {diff[0]}: {digests_by_idx[diff[0]]} vs {other.get(str(diff[0]))}")
            return 2

    # 4. reach: a probe stuck at zero means the workload or fault mix no longer reaches what the
    #    oracles are about; in the thorough tier that is a harness error, never a pass
    stuck = [p_ for p_ in cfg.get("required_probes", []) if not (acc.notes.get(p_, 0) or acc.fired.get(p_, 0) or acc.stats.get(p_, 0))]
    acc.notes["probes_stuck_at_zero"] = len(stuck)
    if stuck:
        log(f"NOTE: reach probes at zero: {stuck}")
        if args.tier == "thorough" and exit_code == 0 and args.runs is None:
            log("HARNESS-ERROR reach probes stuck at zero in the thorough tier")
            return 2
    if not args.no_evidence:
        write_evidence(args, cfg, acc, t0, violations=len(replays), clause_counts=clause_counts)
    log(f"{prop} {args.tier}: {acc.runs} runs, {len(acc.digests)} distinct histories, {len(acc.nontrivial_digests)} non-trivial, {acc.steps} steps, "
        f"faults {acc.fired}, known-finding hits {acc.known_hits}, {time.time() - t0:.1f}s -> exit {exit_code}")
    return exit_code


def rebuild_plan(cfg, args, j, variant):
    from . import runner

    seed = runner.run_seed(args.seed, args.prop, j[1])
    if j[0] == "r":
        return cfg["gen"](seed)
    from . import sweep

    return sweep.sweep_plan(cfg, seed, variant)


# --------------------------------------------------------------------------- evidence
COMPONENTS = {
    "real": ["panoptica.Panoptica_Aggregator", "panoptica.Panoptica_Evaluator and the whole metric pipeline", "panoptica.Panoptica_Statistic",
             "csv, io.TextIOWrapper, io.BufferedWriter/Reader (real buffering over real files on tmpfs)", "pickle round trips at the process boundary",
             "worker processes of the 'procs' and 'forked' process models: real fork()ed operating-system processes (copy-on-fork interpreter images)",
             "restarts: every phase runs in a fresh process image; half of the later phases in an image of a second interpreter started under another PYTHONHASHSEED"],
    "stub": ["multiprocessing.Lock / threading.Lock (created by the package) -> SimLock / SimThreadLock, state held by the scheduler",
             "multiprocessing.Pool -> SimPool (process creation and pipes stubbed, tasks run real code through a real pickle boundary; a pool inherited through fork hangs)",
             "open / os.open / os.write / os.remove / os.rename / os.replace / Path.* -> scheduling+crash points around the real calls", "atexit -> per-group handler list",
             "time.perf_counter / time.time / file modification times -> SimClock", "locale conventions, os.cpu_count, working directory -> per-run knobs",
             "SIGKILL -> tasks (and the proxies of worker processes) never scheduled again; worker processes die with the phase image",
             "scheduling of worker processes: each blocks on a pipe until its proxy task in the central scheduler lets it proceed"],
}


def write_evidence(args, cfg, acc, t0, violations=0, clause_counts=None):
    if os.path.realpath(os.environ.get("VERIF_REPO", "/repo")) != os.path.realpath("/repo"):
        return  # evidence describes /repo only; runs against scratch copies (self-tests) leave it alone
    wall = time.time() - t0
    os.makedirs(os.path.join(VERIF, "evidence"), exist_ok=True)
    rule = {
        "C15": "plans = seeded operation histories on shared evaluators/aggregators (histsim); distinct = digest of the executed operation sequence and results; non-trivial = an evaluator or default-argument object was used by >=2 operations and a non-default option or the simulated pool was used",
        "C16": "plans = seeded workloads of 2-4 concurrent tasks on one aggregator under the seeded scheduler; distinct = digest of the role-normalised event log; non-trivial = at least two tasks were inside operations at the same time",
        "C17": "plans = seeded session histories with kill/interrupt faults (random tier) plus every crash point of sampled histories (sweep tier); distinct = digest of the event log; non-trivial = a fault fired inside a session or two tasks overlapped",
        "C18": "plans = seeded sequential/concurrent sessions with awkward names and edge-case values, loader compared with recorded results; distinct = event-log digest; non-trivial = loader compared on a file with >=1 row (all runs counted here had a kill/overlap or a loader comparison)",
        "C20": "plans = as C18 plus stub-evaluator tables; distinct = event-log digest; non-trivial = summaries compared on a table with >=1 row",
    }[args.prop]
    nontriv = len(acc.nontrivial_digests)
    ev = {
        "property_id": args.prop, "tier": args.tier, "seed": args.seed, "level": cfg["level"],
        "coverage": {
            "evaluations": acc.runs, "distinct_nontrivial": nontriv, "rule": rule,
            "samples": acc.samples or [{"note": "no non-trivial sample captured"}],
            "distinct_histories": len(acc.digests), "distinct_store_states_sampled": len(acc.states),
            "scheduler_steps": acc.steps, "simulated_seconds": round(acc.sim_time, 3),
            "runs_per_hour": int(acc.runs / wall * 3600) if wall > 0 else 0, "seeds_per_hour": int(acc.runs / wall * 3600) if wall > 0 else 0,
            "faults_fired": acc.fired, "fault_positions": acc.fault_at, "probes": acc.notes, "seam_stats": acc.stats,
            "clause_violations": clause_counts or {}, "known_finding_hits": acc.known_hits, "other_property_clause_hits": acc.foreign,
            "runs_with_invalid_generated_input": acc.invalid, "components": COMPONENTS, "exhaustive": False,
            "crash_point_enumeration": ({"swept_histories": acc.notes.get("sweep_histories", 0), "crash_points_enumerated": acc.notes.get("sweep_crash_points", 0),
                                         "note": "for every swept history each scheduling step of the attacked session is a crash point that was executed (kill or interrupt), incl. the recovery session in depth-2 sweeps; histories themselves are sampled"}
                                        if args.prop == "C17" else None),
            "process_images": "reference, every phase and the loader run in process images of their own; phases in knobs.alt_phases run under another PYTHONHASHSEED (probe phase_in_other_interpreter)",
        },
        "assumptions": [
            "scheduling points are the lock, file, pool-task and evaluate entry/exit operations (plus source lines of panoptica_aggregator.py in a subset of runs); code between two points is atomic",
            "a kill loses exactly what was not yet passed to write(2); no power loss, no torn or failing writes",
            "process boundary = pickled copy of the aggregator + shared locks + shared files",
            "reference rows come from the same code run sequentially in its own directory with its own objects",
        ],
        "wall_s": round(wall, 2), "violations": violations,
    }
    with open(os.path.join(VERIF, "evidence", f"{args.prop}.json"), "w") as f:
        json.dump(ev, f, indent=1, sort_keys=True, default=str)


if __name__ == "__main__":
    sys.exit(main())
