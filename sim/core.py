"""Seeded cooperative scheduler: real threads passed a baton.

Exactly one thread runs at any time.  Every scheduling point (`Scheduler.point`) records an
event, lets the fault plan fire (kill / interrupt of a process group at a given step) and asks
the `Chooser` which runnable task goes next.  The chooser is the only source of
nondeterminism; it draws from the run's PRNG or replays a recorded list of choices.

A *group* models one operating-system process group (a script and the workers it forked):
its tasks share the group's locks and atexit list.  SIGKILL of a group = its tasks are never
scheduled again (their threads stay parked until the run's process image leaves through
os._exit), so no `with` block unwinds, no buffer is flushed and no lock is released.
"""

from __future__ import annotations

import hashlib
import sys
import threading
import traceback


class HarnessError(Exception):
    """A fault of the harness itself (never a verdict about the code under test)."""


class SimInterrupt(BaseException):
    """Ctrl-C / uncaught exception delivered to a task: normal unwinding."""


class SimSoftInterrupt(KeyboardInterrupt):
    """Ctrl-C delivered to ONE call (notebook / REPL / guarded loop): the call unwinds, the caller
    catches it and the same interpreter - with the same lock objects - keeps running."""


class RemoteTaskError(Exception):
    """The code under test raised inside a forked worker process; `info` = (type, message, traceback)."""

    def __init__(self, info):
        super().__init__(info[0])
        self.info = tuple(info)


class Chooser:
    """All scheduling decisions of a run.

    random mode : with probability `stay` the current task continues (if runnable), otherwise
                  a uniformly drawn runnable task runs.
    replay mode : `recorded[i]` is the index into the runnable list (sorted by task id) of the
                  i-th decision that had more than one candidate; out-of-range or missing
                  entries fall back to 0 ("first runnable"), so shrunk plans stay executable.
    """

    def __init__(self, rng=None, recorded=None, stay=0.5, pct_depth=0, horizon=60):
        self.rng = rng
        self.recorded = recorded
        self.stay = stay
        self.taken: list[int] = []
        # PCT mode (Burckhardt et al.): every task gets a random priority, the runnable task
        # with the highest priority runs, and at `pct_depth` seeded decision indices the
        # running task's priority drops below all others.  Finds orderings in which one task
        # stalls at a particular point while the others run to completion.
        self.pct_depth = pct_depth
        self.prio: dict[int, float] = {}
        self.decisions = 0
        self.change_at = set()
        if pct_depth and rng is not None:
            self.change_at = {rng.randrange(1, horizon) for _ in range(pct_depth)}

    def choose(self, n: int, cur_idx, tids=None):
        if n == 1:
            return 0
        if self.recorded is not None:
            i = len(self.taken)
            c = self.recorded[i] if i < len(self.recorded) else 0
            if not isinstance(c, int) or c < 0 or c >= n:
                c = 0
        elif self.pct_depth and tids is not None:
            self.decisions += 1
            for t in tids:
                if t not in self.prio:
                    self.prio[t] = 1.0 + self.rng.random()
            if self.decisions in self.change_at and cur_idx is not None:
                self.prio[tids[cur_idx]] = min(self.prio.values()) - 1.0
            c = max(range(n), key=lambda i: self.prio[tids[i]])
        else:
            if cur_idx is not None and self.rng.random() < self.stay:
                c = cur_idx
            else:
                c = self.rng.randrange(n)
        self.taken.append(c)
        return c


class Group:
    def __init__(self, gid: int, name: str):
        self.gid = gid
        self.name = name
        self.alive = True
        self.locks: dict = {}
        self.atexit: list = []
        self.interrupting = False
        self.meta: dict = {}


class Task:
    def __init__(self, tid, name, group, fn, args):
        self.tid = tid
        self.name = name
        self.group = group
        self.fn = fn
        self.args = args
        self.wake = threading.Event()
        self.state = "runnable"  # runnable | blocked | done | dead
        self.blocked_on = None
        self.result = None
        self.exc = None  # (type name, message, traceback text)
        self.thread = None
        self.pending_interrupt = False
        self.interrupted = False
        self.ctx: dict = {}
        self.steps = 0
        self.stalled_until = 0
        self.soft = None  # armed single-call fault: [remaining eligible points, kinds, "kbdint"|"emfile"]
        self.soft_fire = None


class Scheduler:
    def __init__(self, chooser: Chooser, budget: int = 20000, line_trace_files=()):
        self.chooser = chooser
        self.budget = budget
        self.tasks: list[Task] = []
        self.groups: list[Group] = []
        self.current: Task | None = None
        self.step = 0
        self.log: list = []
        self.ctl = threading.Event()
        self.outcome = None  # quiescent | deadlock | budget
        self.kills: dict[int, int] = {}  # step -> gid
        self.interrupts: dict[int, int] = {}
        self.fired: dict[str, int] = {}
        self.line_trace_files = tuple(line_trace_files)
        self.on_point = None  # optional callback(sched, task, kind, detail) for probes
        self.hazard = None  # optional callback(sched, task, kind, detail) -> ("kill"|"interrupt", gid) | None
        self.faults_fired: list = []  # (what, group name, step, kind of the operation it preceded)
        self._park_forever = threading.Event()
        self.switches = 0
        self.lockstate: dict = {}
        self.remote_tag = None
        self.gc_rng = None
        self.gc_prob = 0.0
        self.stall_rng = None
        self.stall_prob = 0.0
        self.on_timeout = None
        self.stallt_rng = None  # seeded "slow task" fault: the running task is not scheduled for a while
        self.stallt_prob = 0.0
        self.decisions = 0
        self.overlap = False  # two tasks of one phase were inside an operation at once

    # ------------------------------------------------------------------ set-up
    def new_group(self, name: str) -> Group:
        g = Group(len(self.groups), name)
        self.groups.append(g)
        return g

    def spawn(self, name: str, group: Group, fn, *args) -> Task:
        t = Task(len(self.tasks), name, group, fn, args)
        self.tasks.append(t)
        th = threading.Thread(target=self._body, args=(t,), daemon=True, name=f"sim-{t.tid}")
        t.thread = th
        th.start()
        return t

    def count(self, key: str, n: int = 1):
        self.fired[key] = self.fired.get(key, 0) + n

    # ------------------------------------------------------------------ thread body
    def _body(self, t: Task):
        t.wake.wait()
        t.wake.clear()
        if self.line_trace_files:
            sys.settrace(self._tracer)
        try:
            if t.state == "dead":
                self._park_forever.wait()
            if t.pending_interrupt and not t.interrupted:
                t.interrupted = True
                raise SimInterrupt()
            t.result = t.fn(*t.args)
        except SimInterrupt:
            t.exc = ("SimInterrupt", "", "")
        except RemoteTaskError as e:
            t.exc = e.info
        except BaseException as e:  # noqa: BLE001 - everything the code under test raises is data
            t.exc = (type(e).__name__, str(e)[:500], traceback.format_exc()[-4000:])
        finally:
            sys.settrace(None)
        if t.state == "dead":
            self._park_forever.wait()
        t.state = "done"
        self.log.append((self.step, t.name, "task.end", "" if t.exc is None else t.exc[0]))
        for o in self.tasks:
            if o.state == "blocked" and o.blocked_on == "join":
                o.state = "runnable"
        nxt = self._pick(None)
        self._handoff(None, nxt)

    def _tracer(self, frame, event, arg):
        if event != "call":
            return None
        fn = frame.f_code.co_filename
        for suffix in self.line_trace_files:
            if fn.endswith(suffix):
                return self._line_tracer
        return None

    def _line_tracer(self, frame, event, arg):
        if event == "line":
            cur = self.current
            if cur is not None and cur.thread is threading.current_thread():
                self.point("line", f"{frame.f_code.co_name}:{frame.f_lineno - frame.f_code.co_firstlineno}")
        return self._line_tracer

    # ------------------------------------------------------------------ choosing / switching
    def _runnable(self):
        rs = [t for t in self.tasks if t.state == "runnable"]
        if self.stallt_rng is not None:
            # stalled tasks (fault: a slow node) are passed over while anybody else can run
            awake = [t for t in rs if t.stalled_until <= self.decisions]
            if awake:
                return awake
        return rs

    def _pick(self, cur: Task | None):
        """Next task to run, or None for the controller (quiescence / deadlock)."""
        rs = self._runnable()
        if not rs:
            if any(t.state == "blocked" for t in self.tasks):
                self.outcome = "deadlock"
            elif self.outcome is None:
                self.outcome = "quiescent"
            return None
        cur_idx = None
        if cur is not None and cur.state == "runnable" and cur in rs:
            cur_idx = rs.index(cur)
        return rs[self.chooser.choose(len(rs), cur_idx, [t.tid for t in rs])]

    def _handoff(self, cur: Task | None, nxt: Task | None):
        if nxt is cur and cur is not None:
            return
        self.switches += 1
        self.current = nxt
        if nxt is None:
            self.ctl.set()
        else:
            nxt.wake.set()
        if cur is not None:
            cur.wake.wait()
            cur.wake.clear()

    def _kill(self, gid: int):
        g = self.groups[gid]
        if not g.alive:
            return
        g.alive = False
        self.count("kill")
        for t in self.tasks:
            if t.group is g and t.state != "done":
                t.state = "dead"

    def _interrupt(self, gid: int):
        g = self.groups[gid]
        if not g.alive or g.interrupting:
            return
        g.interrupting = True
        self.count("interrupt")
        for t in self.tasks:
            if t.group is g and t.state in ("runnable", "blocked"):
                t.pending_interrupt = True
                if t.state == "blocked":
                    t.state = "runnable"

    # ------------------------------------------------------------------ API for seams
    def in_task(self) -> bool:
        cur = self.current
        return cur is not None and cur.thread is threading.current_thread()

    def point(self, kind: str, detail: str = ""):
        """A scheduling point, reached *before* the operation it announces."""
        cur = self.current
        if cur is None or cur.thread is not threading.current_thread():
            raise HarnessError(f"scheduling point {kind}:{detail} reached outside the running task")
        if cur.interrupted and cur.group.interrupting:
            # unwinding after an interrupt: operations still happen, but they are not
            # scheduling or fault points any more (keeps unwinding atomic per task)
            self.log.append((self.step, cur.name, "unwind." + kind, detail))
            return
        self.step += 1
        cur.steps += 1
        self.log.append((self.step, cur.name, kind, detail))
        self.decisions += 1
        if self.stallt_rng is not None and self.stallt_rng.random() < self.stallt_prob:
            # the task stalls right here (before the operation it announced) for a seeded
            # number of scheduling decisions; everybody else keeps running meanwhile
            cur.stalled_until = self.decisions + self.stallt_rng.randint(5, 150)
            self.count("task_stalled")
        if self.gc_rng is not None and self.gc_rng.random() < self.gc_prob:
            # the cyclic garbage collector runs at a moment of its own choosing: here
            import gc

            gc.collect()
            self.count("gc_collect")
        if self.on_point is not None:
            self.on_point(self, cur, kind, detail)
        if self.step >= self.budget:
            self.outcome = "budget"
            self._handoff(cur, None)
            self._park_forever.wait()
        gid = self.kills.get(self.step)
        if gid is not None and self.groups[gid].alive:
            self.faults_fired.append(("kill", self.groups[gid].name, self.step, kind))
            self._kill(gid)
        gid = self.interrupts.get(self.step)
        if gid is not None and self.groups[gid].alive and not self.groups[gid].interrupting:
            self.faults_fired.append(("interrupt", self.groups[gid].name, self.step, kind))
            self._interrupt(gid)
        if self.hazard is not None:
            hz = self.hazard(self, cur, kind, detail)
            if hz is not None:
                what, gid = hz
                g = self.groups[gid]
                if g.alive and not g.interrupting:
                    self.faults_fired.append((what, g.name, self.step, kind))
                    (self._kill if what == "kill" else self._interrupt)(gid)
        if cur.soft is not None and kind in cur.soft[1]:
            cur.soft[0] -= 1
            if cur.soft[0] <= 0:
                # the operation announced here fails / is interrupted for this one call only
                cur.soft_fire = (cur.soft[2], kind, self.step)
                cur.soft = None
        nxt = self._pick(cur)
        if cur.state == "dead":
            self._handoff(None, nxt)
            self._park_forever.wait()
        self._handoff(cur, nxt)
        self._after_resume(cur)

    def _after_resume(self, cur: Task):
        if cur.state == "dead":  # cannot happen: dead tasks are never woken
            self._park_forever.wait()
        if cur.pending_interrupt and not cur.interrupted:
            cur.interrupted = True
            raise SimInterrupt()
        sf = cur.soft_fire
        if sf is not None:
            cur.soft_fire = None
            self.count("soft_" + sf[0])
            self.faults_fired.append(("soft_" + sf[0], cur.group.name, sf[2], sf[1]))
            self.log.append((sf[2], cur.name, "soft." + sf[0], sf[1]))
            if sf[0] == "kbdint":
                raise SimSoftInterrupt("injected: interrupt of this one call")
            raise OSError(24, "Too many open files (injected for this one call)")

    def block(self, reason):
        """Park the running task until somebody makes it runnable again."""
        cur = self.current
        cur.state = "blocked"
        cur.blocked_on = reason
        self.count("blocked")
        nxt = self._pick(None)
        self._handoff(cur, nxt)
        cur.blocked_on = None
        self._after_resume(cur)

    # ------------------------------------------------------------------ locks (state of SimLock)
    def _lockstate(self, uid):
        key = (self.current.group.gid, uid)
        st = self.lockstate.get(key)
        if st is None:
            st = self.lockstate[key] = {"owner": None}
        return key, st

    def lock_acquire(self, uid, name, block=True, timeout=None):
        self.point("lock.acquire", name)
        cur = self.current
        key, st = self._lockstate(uid)
        if st["owner"] is not None:
            if not block:
                return False
            if timeout is not None and timeout >= 0 and self.stall_rng is not None and self.stall_rng.random() < self.stall_prob:
                # fault: the holder is slow or stalled (stopped process, hanging file system) for
                # longer than the waiter is willing to wait - the acquisition times out while the
                # holder is still inside its critical section.  Simulated time jumps by the timeout.
                self.count("lock_timeout_expired")
                self.log.append((self.step, cur.name, "lock.timeout", name))
                if self.on_timeout is not None:
                    self.on_timeout(float(timeout))
                return False
            if st["owner"] is cur:
                self.count("self_deadlock")
            while st["owner"] is not None:
                self.block(("lock", name, key))
        st["owner"] = cur
        self.log.append((self.step, cur.name, "lock.acquired", name))
        if self.on_point is not None:
            self.on_point(self, cur, "lock.acquired", name)
        return True

    def lock_release(self, uid, name):
        key, st = self._lockstate(uid)
        if st["owner"] is None:
            raise ValueError("semaphore or lock released too many times")
        st["owner"] = None
        for t in self.tasks:
            if t.state == "blocked" and isinstance(t.blocked_on, tuple) and t.blocked_on[-1] == key:
                t.state = "runnable"
        self.point("lock.release", name)

    def join(self, tasks):
        self.point("join", "")
        while any(t.state not in ("done", "dead") for t in tasks):
            self.block("join")

    # ------------------------------------------------------------------ controller side
    def run(self):
        """Run from the controller thread until no task is runnable."""
        self.outcome = None
        nxt = self._pick(None)
        if nxt is None:
            return self.outcome
        self.ctl.clear()
        self.current = nxt
        nxt.wake.set()
        self.ctl.wait()
        self.ctl.clear()
        self.current = None
        return self.outcome

    # ------------------------------------------------------------------ digests
    def log_digest(self) -> str:
        h = hashlib.sha256()
        for ev in self.log:
            h.update(repr(ev).encode())
        return h.hexdigest()[:16]
