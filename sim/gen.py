"""Swarm generation of evaluator specifications, label-map pairs and names (plain data only).

Everything here returns JSON-able data; panoptica objects are built from it by model.py inside
the process image that executes the run, so that plans can be written out as replay files.
"""

from __future__ import annotations

import random

METRICS = ["DSC", "IOU", "ASSD", "clDSC", "RVD"]
EDGE_RESULTS = ["INF", "NAN", "ZERO", "ONE", "NONE"]

AWKWARD_SUBJECTS = [
    "", " ", 'a"b', "subject_name", "a b", "A", "a", "s-1", "s_1", "0", "1.5", "nan", "None", "'q'", "ü", "日本", "x,y", "#c", "a\\b", '"', "  lead", "trail  ",
    "panoptica_aggregator_tmp", "-", "--", "é-ñ",
    "Zoe\u0308 Mu\u0308ller", "Zo\u00eb M\u00fcller", "e\u0301", "\u00e9",  # decomposed and composed spellings of the same text
    "Smith, 'Bob', 01", "a;b;c", "x, 'y', z", "NA", "null", "N/A", "<NA>", "#N/A", "1e5", "0x10", "True",
]
NAME_ALPHABET = "abcxyzABZ019-_ .,'\"#/\\üß日Ω+=()"
GROUP_ALPHABET = "abcxyzABZ019-_ .'\"#üßΩ+()"
AWKWARD_GROUPS = ["a-b", "a_b", "a b", "UPPER", "x-", "-x", "tp", "sq-dsc", "ungrouped", "subject_name", "g\"q", "ß", "1", "a--b", "Mixed Case-1",
                  "", " ", "-", "\"quoted\"", "İstanbul", "x-tp", "across_groups", "a,b", "g;1", "na", "e\u0301"]


def rand_name(rng: random.Random, alphabet=NAME_ALPHABET, lo=1, hi=8) -> str:
    n = rng.randint(lo, hi)
    s = "".join(rng.choice(alphabet) for _ in range(n))
    assert s.isprintable()
    return s


def subject_names(rng, n, awkward=0.35):
    out = []
    while len(out) < n:
        s = rng.choice(AWKWARD_SUBJECTS) if rng.random() < awkward else rand_name(rng)
        if rng.random() < 0.03:
            # a name longer than the 4 KiB / 8 KiB buffers of the I/O stack
            s = (rand_name(rng) + "_") * rng.choice([40, 700, 1500])
        if out and rng.random() < 0.06:
            # a name that extends another one by a dotted suffix (scan.nii.gz next to scan)
            s = rng.choice(out) + rng.choice([".v2", ".nii.gz", ".1", "."])
            if rng.random() < 0.5 and s not in out:
                out.insert(rng.randrange(len(out)), s)  # the longer name may come first
                continue
        if s not in out:
            out.append(s)
    return out[:n]


def group_names(rng, n, awkward=0.35):
    """Printable names, pairwise distinct after lower-casing (the library lower-cases them)."""
    out, seen = [], set()
    guard = 0
    while len(out) < n:
        guard += 1
        s = rng.choice(AWKWARD_GROUPS) if rng.random() < awkward else rand_name(rng, GROUP_ALPHABET, 1, 7)
        if guard > 200:
            s = f"g{len(out)}"
        if s.lower() in seen:
            continue
        seen.add(s.lower())
        out.append(s)
    return out


def gen_spec(rng: random.Random, *, allow_times=True, plain_groups=False, max_groups=4, cheap=False, misconfig=False) -> dict:
    """One evaluator configuration.  `cheap` keeps to fast metrics (used where the schedule,
    not the numerics, is being explored)."""
    inp = rng.choice(["SEMANTIC", "UNMATCHED_INSTANCE", "MATCHED_INSTANCE", "MATCHED_INSTANCE"])
    metric_pool = ["DSC", "IOU", "RVD"] + ([] if cheap else ["ASSD", "clDSC"])
    if cheap and rng.random() < 0.25:
        metric_pool.append("ASSD")
    spec = {"input": inp, "approx": None, "matcher": None, "groups": None, "inst_metrics": None,
            "glob_metrics": None, "decision": None, "ech": None,
            "save_group_times": False, "log_times": False, "verbose": False}
    if inp == "SEMANTIC" or rng.random() < 0.15:
        spec["approx"] = rng.choice(["auto", "cc3d", "scipy"])
    if inp in ("SEMANTIC", "UNMATCHED_INSTANCE") or rng.random() < 0.15:
        kind = rng.choice(["naive", "naive", "merge"])
        spec["matcher"] = {"kind": kind, "metric": rng.choice(["IOU", "IOU", "DSC"]),
                           "thr": rng.choice([0.5, 0.5, 0.3, 0.1, 0.75]), "many": kind == "naive" and (not cheap) and rng.random() < 0.25}
    # metric selections (None = leave the constructor's mutable default argument in place)
    if rng.random() < 0.55:
        k = rng.randint(1, len(metric_pool))
        spec["inst_metrics"] = rng.sample(metric_pool, k)
    elif cheap:
        spec["inst_metrics"] = ["DSC", "IOU", "RVD"]
    if rng.random() < 0.5:
        k = rng.randint(0, min(3, len(metric_pool)))
        spec["glob_metrics"] = rng.sample(metric_pool, k)
    inst = spec["inst_metrics"] or ["DSC", "IOU", "ASSD", "RVD"]
    if rng.random() < 0.35:
        dm = rng.choice(inst)
        thr = rng.choice([0.5, 0.3, 0.8, 0.9]) if dm in ("DSC", "IOU", "clDSC") else rng.choice([0.5, 1.0, 2.0])
        spec["decision"] = [dm, thr]
    elif misconfig and rng.random() < 0.15:
        # a misconfigured evaluator: its decision metric is not among its instance metrics, so
        # every evaluation that reaches the instance phase is refused - which must leave every
        # other object (and the shared default metric lists) as they were
        outside = [m for m in ("DSC", "IOU", "ASSD", "RVD", "clDSC") if m not in inst]
        if outside:
            dm = rng.choice(outside)
            spec["decision"] = [dm, 0.5]
            spec["misconfigured"] = True
    if rng.random() < 0.5:
        used = sorted(set(inst) | set(spec["glob_metrics"] if spec["glob_metrics"] is not None else ["DSC"]) | {"DSC", "IOU"})
        if spec["matcher"]:
            used = sorted(set(used) | {spec["matcher"]["metric"]})
        ech = {"metrics": {}, "empty_list_std": rng.choice(EDGE_RESULTS)}
        for m in used:
            ech["metrics"][m] = {"default": rng.choice(EDGE_RESULTS), "no_instances": rng.choice(EDGE_RESULTS + [None]),
                                 "empty_pred": rng.choice(EDGE_RESULTS + [None]), "empty_ref": rng.choice(EDGE_RESULTS + [None]),
                                 "normal": rng.choice(EDGE_RESULTS + [None])}
        spec["ech"] = ech
    if rng.random() < 0.6:
        ng = rng.randint(1, max_groups)
        names = [f"g{i}" for i in range(ng)] if plain_groups else group_names(rng, ng)
        labels = list(range(1, 10))
        rng.shuffle(labels)
        groups = []
        for nm in names:
            single = rng.random() < 0.2
            merge = (not single) and rng.random() < 0.25
            k = 1 if single else rng.randint(1, 3)
            ls = [labels.pop() for _ in range(min(k, len(labels)))]
            if not ls:
                break
            groups.append({"name": nm, "labels": sorted(ls), "single": single, "merge": merge})
        spec["groups"] = groups
    if allow_times:
        spec["save_group_times"] = rng.random() < 0.3
        spec["log_times"] = rng.random() < 0.15
        spec["verbose"] = rng.random() < 0.1
    return spec


def spec_labels(spec):
    if spec["groups"] is None:
        return None
    out = []
    for g in spec["groups"]:
        out.extend(g["labels"])
    return out


def gen_input(rng: random.Random, spec: dict, *, max_side=8, max_inst=4, allow_1d=False, exotic=False) -> dict:
    """A prediction/reference pair valid for `spec` (labels inside the groups, dtype accepted
    by the input type).  Instances are boxes; prediction instances are jittered copies of
    reference instances, dropped or added at random, so that TP/FP/FN and empty cases occur."""
    inst = set(spec["inst_metrics"] or ["DSC", "IOU", "ASSD", "RVD"]) | set(spec["glob_metrics"] if spec["glob_metrics"] is not None else ["DSC"])
    ndim = rng.choice([2, 2, 3])
    if allow_1d and not ({"clDSC", "ASSD"} & inst) and rng.random() < 0.1:
        ndim = 1
    shape = [rng.randint(3, max_side) for _ in range(ndim)]
    vol = 1
    for s in shape:
        vol *= s
    semantic = spec["input"] == "SEMANTIC"
    need_unsigned = (not semantic) or any(g["single"] for g in (spec["groups"] or []))
    dtype = rng.choice(["uint8", "uint16", "uint32"] if need_unsigned else ["uint8", "uint16", "int32", "int64", "uint8"])
    allowed = spec_labels(spec)
    ref = [0] * vol
    pred = [0] * vol
    strides = []
    acc = 1
    for s in reversed(shape):
        strides.insert(0, acc)
        acc *= s

    def paint(buf, lo, hi, val):
        def rec(d, off):
            if d == ndim:
                buf[off] = val
                return
            for i in range(lo[d], hi[d]):
                rec(d + 1, off + i * strides[d])
        rec(0, 0)

    def box():
        lo, hi = [], []
        for s in shape:
            a = rng.randrange(s)
            b = min(s, a + rng.randint(1, max(1, s // 2 + 1)))
            lo.append(a)
            hi.append(b)
        return lo, hi

    n_ref = rng.choice([0, 1, 1, 2, 2, 3, max_inst])
    if rng.random() < 0.12:
        n_ref = 0
    label_cycle = allowed[:] if allowed else list(range(1, 10))
    rng.shuffle(label_cycle)
    matched = spec["input"] == "MATCHED_INSTANCE"
    for i in range(n_ref):
        lab = label_cycle[i % len(label_cycle)] if (allowed or semantic or matched) else i + 1
        if not allowed and not semantic:
            lab = i + 1
        lo, hi = box()
        paint(ref, lo, hi, lab)
        r = rng.random()
        if r < 0.2:
            continue  # missed by the prediction
        plo, phi = lo[:], hi[:]
        if rng.random() < 0.6:
            d = rng.randrange(ndim)
            if rng.random() < 0.5 and phi[d] - plo[d] > 1:
                phi[d] -= 1
            elif plo[d] > 0:
                plo[d] -= 1
        if matched or semantic or allowed:
            plab = lab
        else:
            plab = rng.randint(1, 6)
        paint(pred, plo, phi, plab)
    if rng.random() < 0.3:  # an extra prediction instance
        lo, hi = box()
        lab = rng.choice(label_cycle) if (allowed or semantic) else rng.randint(1, 8)
        paint(pred, lo, hi, lab)
    if rng.random() < 0.08:
        pred = [0] * vol
    order = rng.choice(["C", "C", "C", "F"])
    out = {"shape": shape, "dtype": dtype, "pred": pred, "ref": ref, "order": order}
    if exotic:
        # memory-level variety of the caller's arrays: read-only buffers (an in-place write by the
        # library raises instead of passing silently), non-contiguous views, prediction and
        # reference being one and the same object
        if rng.random() < 0.2:
            out["readonly"] = True
        if rng.random() < 0.15:
            out["strided"] = True
        if rng.random() < 0.05:
            out["alias"] = True
            out["ref"] = list(out["pred"])
        if rng.random() < 0.12:
            out["byteorder"] = ">"  # non-native (big-endian) integers, e.g. read from a NIfTI/raw file
    return out
