"""histsim — C15: evaluation is pure.

One run = one generated *history* of operations on shared evaluators / aggregators, executed
single-threaded in one process image, with the worker pool, the clocks and the files behind
the seams.  Every evaluation result is compared bit-for-bit with the value the same
(specification, input) yields in its *own pristine process image* (forked from the still
pristine run image before the history starts): built from the specification, evaluated once,
default options, plain serial execution.  The reference never sees the history, the options
or the pool; it decides whether numbers are the *same*, not whether they are right.
"""

from __future__ import annotations

import copy
import hashlib
import os
import random
import sys

from . import gen, model, runner
from .core import Group
from .install import MODS
from .seams import WORLD, SimClock, run_atexit
from .shrink import SIMPLE_INPUT, SIMPLE_SPEC

DEFAULT_OPTS = {"result_all": True, "save_group_times": None, "log_times": None, "verbose": None}
EV_CREATORS = ("new_ev", "save_load", "pickle_copy", "deep_copy")


# --------------------------------------------------------------------------- plan generation
def plan_c15(seed: int) -> dict:
    rng = random.Random(seed)
    n_specs = rng.choice([1, 1, 2, 2, 3])
    specs, inputs = [], {}
    for si in range(n_specs):
        spec = gen.gen_spec(rng, plain_groups=True, max_groups=3, cheap=rng.random() < 0.7, misconfig=True)
        if si > 0 and rng.random() < 0.4:
            # a sibling configuration that shares the mutable default arguments
            spec["inst_metrics"] = None
            spec["glob_metrics"] = None
            spec["decision"] = None
            spec["ech"] = None
        specs.append(spec)
        for k in range(rng.randint(1, 3)):
            inputs[f"s{si}k{k}"] = gen.gen_input(rng, spec, max_side=8, max_inst=4, allow_1d=True, exotic=True)
    ops = []
    evs = []  # (ev id, spec idx)
    aggs = []  # (agg id, ev id)
    n_ops = rng.randint(4, 20)

    def new_ev():
        si = rng.randrange(n_specs)
        evs.append((len(evs), si))
        ops.append(["new_ev", si])

    def opts():
        o = dict(DEFAULT_OPTS)
        if rng.random() < 0.5:
            o["result_all"] = rng.random() < 0.6
            o["save_group_times"] = rng.choice([None, True, False])
            o["log_times"] = rng.choice([None, True, False])
            o["verbose"] = rng.choice([None, None, True, False])
        return o

    new_ev()
    subj = 0
    while len(ops) < n_ops:
        r = rng.random()
        if r < 0.12 and len(evs) < 6:
            new_ev()
        elif r < 0.55:
            e, si = rng.choice(evs)
            ik = rng.choice([k for k in inputs if k.startswith(f"s{si}k")])
            pool = rng.choice(["serial", "sim", "sim"])
            ops.append(["eval", e, ik, opts(), pool, rng.choice([1, 2, 3, 16])])
        elif r < 0.62:
            ops.append(["keys", rng.choice(evs)[0]])
        elif r < 0.70 and len(aggs) < 3:
            e, si = rng.choice(evs)
            aggs.append((len(aggs), e, si))
            ops.append(["new_agg", e, rng.random() < 0.4, rng.random() < 0.3])
        elif r < 0.80 and aggs:
            a, e, si = rng.choice(aggs)
            ik = rng.choice([k for k in inputs if k.startswith(f"s{si}k")])
            ops.append(["agg_eval", a, ik, f"subj{subj}", rng.choice(["serial", "sim"])])
            subj += 1
        elif r < 0.83 and aggs:
            ops.append(["agg_stat", rng.choice(aggs)[0]])
        elif r < 0.87:
            ops.append(["set_times", rng.choice(evs)[0], rng.random() < 0.5])
        elif r < 0.91 and len(evs) < 6:
            e, si = rng.choice(evs)
            evs.append((len(evs), si))
            # a second object with the same configuration: through the YAML file, or through
            # pickle (what a worker process receives), or through copy.deepcopy
            ops.append([rng.choice(["save_load", "save_load", "pickle_copy", "deep_copy"]), e])
        elif r < 0.96:
            ops.append(["misc", rng.choice(["edge_case_handler", "default_evaluator", "class_groups", "label_group", "default_evaluate", "mutate_free_defaults"])])
        else:
            ops.append(["touch", rng.randrange(0, 8), rng.choice(["str", "calculate_all", "to_dict", "attrs"])])
    return {"engine": "histsim", "property": "C15", "seed": seed, "specs": specs, "inputs": inputs, "ops": ops,
            "knobs": {"clock_jump": rng.choice([0.0, 0.2]), "cpu_count": rng.choice([None, 1, 2, 3, 64])}, "share_components": rng.random() < 0.4}


# --------------------------------------------------------------------------- pristine references
def _silence():
    WORLD.sched = None
    WORLD.clock = None
    WORLD.pool_mode = "serial"
    WORLD.pool_rng = None
    WORLD.default_group = Group(-1, "pristine")
    WORLD.eval_hook = None


def result_canon(res_grouped):
    """{group: [[metric, canonical value], ...]} after forcing every metric."""
    out = {}
    for g, tup in res_grouped.items():
        r = tup[0]
        r.calculate_all(print_errors=False)
        d = r.to_dict()
        out[g] = [[k, model.canon(v)] for k, v in d.items()]
    return out


def lazy_canon(res_grouped):
    """What the returned results report *as returned* (nothing forced)."""
    return {g: [[k, model.canon(v)] for k, v in tup[0].to_dict().items()] for g, tup in res_grouped.items()}


def ref_eval(spec, inp):
    """Runs in its own pristine image."""
    _silence()
    ev = model.build_evaluator(spec)
    pred, ref = model.build_arrays(inp)
    try:
        res = ev.evaluate(pred, ref)
    except Exception as e:  # noqa: BLE001 - input not valid for this specification
        return {"invalid": f"{type(e).__name__}: {str(e)[:200]}"}
    return {"result": result_canon(res)}


def ref_eval_lazy(spec, inp):
    """Its own pristine image: result_all=False, default logging options, nothing forced."""
    _silence()
    ev = model.build_evaluator(spec)
    pred, ref = model.build_arrays(inp)
    try:
        res = ev.evaluate(pred, ref, result_all=False)
    except Exception as e:  # noqa: BLE001
        return {"invalid": f"{type(e).__name__}: {str(e)[:200]}"}
    return {"lazy": lazy_canon(res)}


def ref_spec(spec, root):
    """Pristine advertised keys, group names and saved configuration."""
    _silence()
    os.makedirs(root, exist_ok=True)
    ev = model.build_evaluator(spec)
    path = os.path.join(root, "pristine.yaml")
    ev.save_to_config(path)
    with open(path, encoding="utf8") as f:
        yaml_text = f.read()
    try:
        keys = list(ev.resulting_metric_keys)
    except AssertionError:
        if not spec.get("misconfigured"):
            raise
        keys = None  # a misconfigured evaluator refuses to advertise keys
    return {"keys": keys, "yaml": yaml_text, "groups": list(ev.segmentation_class_groups_names)}


# --------------------------------------------------------------------------- the history
class Hist:
    def __init__(self, plan, root, expected, spec_ref, expected_lazy=None):
        self.plan = plan
        self.root = root
        self.expected = expected
        self.expected_lazy = expected_lazy or {}
        self.spec_ref = spec_ref
        self.viol = []
        self.notes = {}
        self.evs = []  # [evaluator, spec idx, keys_read]
        self.aggs = []  # [aggregator, ev id, path]
        self.results = []
        self.arrays = {}
        self.opsig = []
        self.uses = {}
        self.nondefault = False
        self.captured = None
        self.times_set = set()
        self.shared = {}

    def v(self, clause, detail):
        self.viol.append([clause, detail])

    def note(self, k, n=1):
        self.notes[k] = self.notes.get(k, 0) + n

    def arrays_for(self, ik):
        if ik not in self.arrays:
            pred, ref = model.build_arrays(self.plan["inputs"][ik])
            self.arrays[ik] = (pred, ref, model.array_fingerprint(pred), model.array_fingerprint(ref))
        return self.arrays[ik]

    def check_arrays(self, ik, where):
        pred, ref, fp, fr = self.arrays[ik]
        if model.array_fingerprint(pred) != fp or model.array_fingerprint(ref) != fr:
            self.v("input_unmodified", f"{where}: caller's arrays of input {ik} changed")
            # restore so that later comparisons judge later operations
            p2, r2 = model.build_arrays(self.plan["inputs"][ik])
            self.arrays[ik] = (p2, r2, model.array_fingerprint(p2), model.array_fingerprint(r2))

    def compare(self, got, ik, clause, where):
        exp = self.expected.get(ik)
        if exp is None or "invalid" in exp:
            self.note("skipped_invalid_input")
            return
        exp = exp["result"]
        if list(got.keys()) != list(exp.keys()):
            self.v(clause, f"{where}: groups {list(got)} != pristine {list(exp)}")
            return
        for g in exp:
            ge = [x for x in exp[g] if x[0] != "computation_time"]
            gg = [x for x in got[g] if x[0] != "computation_time"]
            if ge != gg:
                de, dg = dict(map(tuple_, ge)), dict(map(tuple_, gg))
                diff = [k for k in list(de) + [k for k in dg if k not in de] if de.get(k, "absent") != dg.get(k, "absent")]
                self.v(clause, f"{where}: group {g!r} differs from the pristine result in {diff[:6]} (order differs only: {not diff})")
                return
        self.note("compared_" + clause)

    def check_keys(self, e, where):
        ev, si, _ = self.evs[e]
        self.evs[e][2] = True
        if self.spec_ref[si]["keys"] is None:
            # misconfigured evaluator: the pristine one refuses too; whatever this one does is
            # judged through the other evaluators of the history
            try:
                list(ev.resulting_metric_keys)
                self.note("misconfigured_keys_answered")
            except Exception:  # noqa: BLE001
                self.note("misconfigured_keys_refused")
            return True
        ks = list(ev.resulting_metric_keys)
        if ks != self.spec_ref[si]["keys"]:
            extra = [k for k in ks if k not in self.spec_ref[si]["keys"]]
            self.v("keys_stable", f"{where}: evaluator {e} advertises {len(ks)} keys, pristine {len(self.spec_ref[si]['keys'])}; extra {extra[:4]}")
            return False
        return True

    def check_config(self, e, where):
        ev, si, _ = self.evs[e]
        p = os.path.join(self.root, f"cfg_{e}_{len(self.opsig)}.yaml")
        try:
            ev.save_to_config(p)
            with open(p, encoding="utf8") as f:
                txt = f.read()
        except Exception as ex:  # noqa: BLE001
            self.v("config_stable", f"{where}: save_to_config raised {type(ex).__name__}: {str(ex)[:150]}")
            return
        if self.norm_cfg(txt, e) != self.norm_cfg(self.spec_ref[si]["yaml"], e):
            self.v("config_stable", f"{where}: saved configuration of evaluator {e} differs from the pristine one")

    def norm_cfg(self, txt, e):
        """set_log_group_times is a documented setter of exactly one field; once it was
        called on an evaluator that field is exempt from the comparison."""
        if e in self.times_set:
            return "\n".join(ln for ln in txt.split("\n") if not ln.strip().startswith("save_group_times:"))
        return txt

    def use(self, key):
        self.uses[key] = self.uses.get(key, 0) + 1

    # ------------------------------------------------------------------ operations
    def run(self):
        plan = self.plan
        P = MODS["panoptica"]
        agg_mod = MODS["agg"]
        w = WORLD
        w.sched = None
        w.root = self.root
        w.clock = SimClock(random.Random(plan["seed"] ^ 0xC10C))
        w.clock.jump_prob = plan.get("knobs", {}).get("clock_jump", 0.0)
        w.pool_rng = random.Random(plan["seed"] ^ 0x9001)
        w.pool_mode = "serial"
        w.pool_points = False
        w.default_group = Group(0, "history")
        w.armed = False
        os.makedirs(self.root, exist_ok=True)

        def hook(when, ev, a, k, res):
            if when == "exit":
                self.captured = res

        for oi, op in enumerate(plan["ops"]):
            kind = op[0]
            where = f"op {oi} {kind}"
            self.opsig.append(kind)
            try:
                if kind == "new_ev":
                    shared = self.shared.setdefault(op[1], {}) if plan.get("share_components") else None
                    self.evs.append([model.build_evaluator(plan["specs"][op[1]], shared), op[1], False])
                    if shared is not None:
                        self.note("components_shared")
                    spec = plan["specs"][op[1]]
                    if spec["inst_metrics"] is None or spec["ech"] is None:
                        self.use("defaults")
                elif kind == "eval":
                    e, ik, o, pool, workers = op[1], op[2], op[3], op[4], op[5]
                    if e >= len(self.evs):
                        continue
                    ev, si, _ = self.evs[e]
                    if not ik.startswith(f"s{si}k") or ik not in plan["inputs"]:
                        continue
                    pred, ref, _, _ = self.arrays_for(ik)
                    w.pool_mode = pool
                    w.pool_workers = workers
                    self.use(("ev", e))
                    nondefault = o != DEFAULT_OPTS
                    if nondefault or pool == "sim":
                        self.nondefault = True
                    clause = "worker_independent" if pool == "sim" else ("option_independent" if nondefault else "history_independent")
                    kw = {k: v for k, v in o.items() if not (k == "result_all" and v is True) and not (k != "result_all" and v is None)}
                    try:
                        res = ev.evaluate(pred, ref, **kw)
                    except Exception as ex:  # noqa: BLE001
                        w.pool_mode = "serial"
                        self.check_arrays(ik, where)
                        exp = self.expected.get(ik)
                        if exp is not None and "invalid" in exp:
                            self.note("skipped_invalid_input")
                            continue
                        c2 = "option_independent" if nondefault else clause
                        self.v(c2, f"{where}: evaluate raised {type(ex).__name__}: {str(ex)[:160]} (options {kw}, pool {pool}); the pristine evaluation succeeds")
                        continue
                    w.pool_mode = "serial"
                    self.check_arrays(ik, where)
                    want_time = o["save_group_times"] if o["save_group_times"] is not None else None
                    for g, tup in res.items():
                        ct = tup[0].computation_time
                        if want_time is True and not (isinstance(ct, float) and ct >= 0):
                            self.v("option_independent", f"{where}: save_group_times=True but computation_time is {ct!r}")
                    self.results.append(res)
                    if o["result_all"] is False and ik in self.expected_lazy and "lazy" in self.expected_lazy[ik]:
                        # what the call reports as returned must not depend on logging options
                        got_lazy = lazy_canon(res)
                        exp_lazy = self.expected_lazy[ik]["lazy"]
                        strip = lambda d: {g: [x for x in v if x[0] != "computation_time"] for g, v in d.items()}  # noqa: E731
                        if strip(got_lazy) != strip(exp_lazy):
                            extra = [k for g in got_lazy for k, _ in got_lazy[g] if k not in [x[0] for x in exp_lazy.get(g, [])]]
                            self.v("option_independent" if nondefault and pool != "sim" else clause, f"{where}: with result_all=False the call reports a different set of metrics than a pristine call with default logging options (extra {extra[:5]}; options {kw})")
                        else:
                            self.note("compared_lazy")
                    self.compare(result_canon(res), ik, clause, where)
                    self.check_arrays(ik, where + " (after reading the result)")
                elif kind == "keys":
                    if op[1] < len(self.evs):
                        self.check_keys(op[1], where)
                elif kind == "new_agg":
                    e, log_times, as_path = op[1], op[2], op[3]
                    if e >= len(self.evs):
                        continue
                    path = os.path.join(self.root, f"agg{len(self.aggs)}", "out.tsv")
                    os.makedirs(os.path.dirname(path), exist_ok=True)
                    if self.spec_ref[self.evs[e][1]]["keys"] is None:
                        try:
                            agg_mod.Panoptica_Aggregator(self.evs[e][0], agg_mod.Path(path) if as_path else path, log_times=log_times)
                            self.note("misconfigured_aggregator_built")
                        except Exception:  # noqa: BLE001
                            self.note("misconfigured_aggregator_refused")
                        continue
                    a = agg_mod.Panoptica_Aggregator(self.evs[e][0], agg_mod.Path(path) if as_path else path, log_times=log_times)
                    self.aggs.append([a, e, path])
                    self.evs[e][2] = True
                    self.use(("ev", e))
                    self.check_keys(e, where)
                elif kind == "agg_eval":
                    a, ik, subj, pool = op[1], op[2], op[3], op[4]
                    if a >= len(self.aggs):
                        continue
                    ag, e, path = self.aggs[a]
                    si = self.evs[e][1]
                    if not ik.startswith(f"s{si}k") or ik not in plan["inputs"]:
                        continue
                    pred, ref, _, _ = self.arrays_for(ik)
                    self.use(("ev", e))
                    w.pool_mode = pool
                    self.captured = None
                    w.eval_hook = hook
                    try:
                        ag.evaluate(pred, ref, subj)
                    except Exception as ex:  # noqa: BLE001
                        exp = self.expected.get(ik)
                        if not (exp is not None and "invalid" in exp):
                            self.v("history_independent", f"{where}: aggregator.evaluate raised {type(ex).__name__}: {str(ex)[:160]}; the pristine evaluation succeeds")
                        continue
                    finally:
                        w.eval_hook = None
                        w.pool_mode = "serial"
                    self.check_arrays(ik, where)
                    if self.captured is not None:
                        self.compare(result_canon(self.captured), ik, "worker_independent" if pool == "sim" else "history_independent", where)
                    self.check_keys(e, where)
                elif kind == "agg_stat":
                    if op[1] < len(self.aggs):
                        try:
                            self.aggs[op[1]][0].make_statistic()
                        except Exception:  # noqa: BLE001 - judged by C16/C18, not here
                            self.note("agg_stat_raised")
                elif kind == "set_times":
                    if op[1] < len(self.evs):
                        self.evs[op[1]][0].set_log_group_times(op[2])
                        self.times_set.add(op[1])
                        self.note("set_log_group_times")
                elif kind == "save_load":
                    e = op[1]
                    if e >= len(self.evs):
                        continue
                    ev, si, _ = self.evs[e]
                    p = os.path.join(self.root, f"sl_{oi}.yaml")
                    ev.save_to_config(p)
                    with open(p, encoding="utf8") as f:
                        txt = f.read()
                    if self.norm_cfg(txt, e) != self.norm_cfg(self.spec_ref[si]["yaml"], e):
                        self.v("config_stable", f"{where}: saved configuration of evaluator {e} differs from the pristine one")
                    ev2 = P.Panoptica_Evaluator.load_from_config(p)
                    self.evs.append([ev2, si, False])
                    if e in self.times_set:
                        self.times_set.add(len(self.evs) - 1)
                elif kind in ("pickle_copy", "deep_copy"):
                    e = op[1]
                    if e >= len(self.evs):
                        continue
                    ev, si, _ = self.evs[e]
                    if kind == "pickle_copy":
                        import pickle

                        ev2 = pickle.loads(pickle.dumps(ev))
                    else:
                        ev2 = copy.deepcopy(ev)
                    self.evs.append([ev2, si, False])
                    if e in self.times_set:
                        self.times_set.add(len(self.evs) - 1)
                    self.use(("ev", e))
                elif kind == "misc":
                    self.misc(op[1])
                elif kind == "touch":
                    if self.results:
                        res = self.results[op[1] % len(self.results)]
                        for g, tup in res.items():
                            r = tup[0]
                            if op[2] == "str":
                                str(r)
                            elif op[2] == "calculate_all":
                                r.calculate_all(print_errors=False)
                            elif op[2] == "to_dict":
                                r.to_dict()
                            else:
                                for name in ("tp", "fp", "fn", "rq", "sq", "pq", "sq_dsc", "global_bin_dsc"):
                                    try:
                                        getattr(r, name)
                                    except Exception:  # noqa: BLE001
                                        pass
            except Exception as ex:  # noqa: BLE001 - an operation of the history itself failed
                import traceback

                self.note("op_raised:" + kind)
                self.v("history_independent", f"{where}: raised {type(ex).__name__}: {str(ex)[:200]} | {traceback.format_exc()[-300:]}")
            # advertised keys of evaluators whose keys were already read through the API
            for e, (ev, si, read) in enumerate(self.evs):
                if read and kind not in ("keys",):
                    if not self.check_keys(e, where + " (afterwards)"):
                        break
        for e in range(len(self.evs)):
            self.check_keys(e, "end of history")
            self.check_config(e, "end of history")
        run_atexit(w.default_group)
        nontrivial = any(n >= 2 for n in self.uses.values()) and self.nondefault
        h = hashlib.sha256(repr((self.opsig, [[op[0]] + [repr(x) for x in op[1:3]] for op in plan["ops"]])).encode()).hexdigest()[:16]
        rd = hashlib.sha256(repr(self.viol).encode() + repr(sorted(self.notes.items())).encode()).hexdigest()[:16]
        return {"violations": self.viol, "harness_error": None, "steps": [len(plan["ops"])], "digest": h, "files_digest": rd,
                "fired": {"clock_jump": w.clock.jumps, "pool_out_of_order": w.stats.get("pool_out_of_order", 0)}, "notes": self.notes,
                "stats": dict(w.stats), "nontrivial": nontrivial, "sim_time": w.clock.covered, "faults_fired": [],
                "invalid_inputs": [k for k, v in self.expected.items() if "invalid" in v]}

    def misc(self, what):
        P = MODS["panoptica"]
        from panoptica.utils.edge_case_handling import EdgeCaseHandler
        from panoptica.utils.label_group import LabelGroup
        from panoptica.utils.segmentation_class import SegmentationClassGroups
        import numpy as np

        if what == "edge_case_handler":
            EdgeCaseHandler()
        elif what == "default_evaluator":
            P.Panoptica_Evaluator()
            self.use("defaults")
        elif what == "class_groups":
            SegmentationClassGroups({"x": LabelGroup([1, 2]), "y": (3, True)})
        elif what == "label_group":
            LabelGroup([4, 5])
        elif what == "default_evaluate":
            # an unrelated default evaluator evaluates something (shares the default arguments)
            ev = P.Panoptica_Evaluator()
            a = np.zeros((5, 5), dtype=np.uint8)
            a[1:3, 1:3] = 1
            b = a.copy()
            b[3, 3] = 2
            ev.evaluate(b, a)
            self.use("defaults")
        elif what == "mutate_free_defaults":
            ev = P.Panoptica_Evaluator(expected_input=P.InputType.MATCHED_INSTANCE)
            list(ev.resulting_metric_keys)
            self.use("defaults")


def tuple_(x):
    return (x[0], repr(x[1]))


def execute(plan: dict, root: str) -> dict:
    """Runs in the run's own child image.  That image is still pristine here, so the reference
    images are forked from it before the history touches anything."""
    os.makedirs(root, exist_ok=True)
    expected, spec_ref = {}, {}
    used = set()
    for op in plan["ops"]:
        if op[0] in ("eval", "agg_eval"):
            used.add(op[2])
    for si, spec in enumerate(plan["specs"]):
        st, val = runner.child_call(ref_spec, (spec, os.path.join(root, f"refspec{si}")), timeout=120)
        if st != "ok":
            return {"violations": [], "harness_error": f"pristine spec image failed: {val[:500]}"}
        spec_ref[si] = val
    for ik in sorted(used):
        if ik not in plan["inputs"]:
            continue
        si = int(ik[1:ik.index("k")])
        if si >= len(plan["specs"]):
            continue
        st, val = runner.child_call(ref_eval, (plan["specs"][si], plan["inputs"][ik]), timeout=120)
        if st != "ok":
            return {"violations": [], "harness_error": f"pristine evaluation image failed: {val[:500]}"}
        expected[ik] = val
    expected_lazy = {}
    for op in plan["ops"]:
        if op[0] == "eval" and op[3].get("result_all") is False and op[2] in expected and op[2] not in expected_lazy and "result" in expected[op[2]]:
            ik = op[2]
            si = int(ik[1:ik.index("k")])
            st, val = runner.child_call(ref_eval_lazy, (plan["specs"][si], plan["inputs"][ik]), timeout=120)
            if st != "ok":
                return {"violations": [], "harness_error": f"pristine lazy evaluation image failed: {val[:500]}"}
            expected_lazy[ik] = val
    # the number of CPUs the library believes it has is part of the environment of a run
    ncpu = plan.get("knobs", {}).get("cpu_count")
    if ncpu:
        import multiprocessing

        os.cpu_count = lambda: ncpu
        multiprocessing.cpu_count = lambda: ncpu
        for name, mod in list(sys.modules.items()):
            if mod is not None and (name == "panoptica" or name.startswith("panoptica.")) and "cpu_count" in vars(mod):
                setattr(mod, "cpu_count", lambda: ncpu)
    h = Hist(plan, root, expected, spec_ref, expected_lazy)
    try:
        return h.run()
    finally:
        WORLD.sched = None


# --------------------------------------------------------------------------- shrinking
def _drop_creator(plan, idx):
    """Remove the operation that creates an evaluator (or aggregator) together with every
    operation that uses it, renumbering the later ones."""
    c = copy.deepcopy(plan)
    ops = c["ops"]
    kind = ops[idx][0]
    is_ev = kind in EV_CREATORS
    # index of the created object
    n = sum(1 for o in ops[:idx] if (o[0] in EV_CREATORS if is_ev else o[0] == "new_agg"))
    out = []
    dropped_aggs = set()
    agg_counter = 0
    for i, o in enumerate(ops):
        o = list(o)
        if i == idx:
            if o[0] == "new_agg":
                agg_counter += 1
            continue
        if is_ev:
            if o[0] in ("eval", "keys", "set_times", "save_load", "pickle_copy", "deep_copy"):
                if o[1] == n:
                    if o[0] in EV_CREATORS:
                        return None  # would cascade; keep it simple
                    continue
                if o[1] > n:
                    o[1] -= 1
            elif o[0] == "new_agg":
                if o[1] == n:
                    dropped_aggs.add(agg_counter)
                    agg_counter += 1
                    continue
                if o[1] > n:
                    o[1] -= 1
                agg_counter += 1
            elif o[0] in ("agg_eval", "agg_stat"):
                if o[1] in dropped_aggs:
                    continue
                o[1] -= sum(1 for d in dropped_aggs if d < o[1])
        else:
            if o[0] == "new_agg":
                agg_counter += 1
            if o[0] in ("agg_eval", "agg_stat"):
                if o[1] == n:
                    continue
                if o[1] > n:
                    o[1] -= 1
        out.append(o)
    c["ops"] = out
    if not any(o[0] in ("new_ev",) for o in out):
        return None
    return c


def candidates(plan):
    P = copy.deepcopy
    ops = plan["ops"]
    for i in reversed(range(len(ops))):
        if ops[i][0] in EV_CREATORS or ops[i][0] == "new_agg":
            c = _drop_creator(plan, i)
            if c is not None:
                yield f"drop creator op {i} {ops[i][0]} and its users", c
    for i in reversed(range(len(ops))):
        if ops[i][0] in EV_CREATORS or ops[i][0] == "new_agg":
            continue  # ids of later operations depend on them
        c = P(plan)
        del c["ops"][i]
        yield f"drop op {i} {ops[i][0]}", c
    for i, op in enumerate(ops):
        if op[0] == "eval":
            if op[3] != DEFAULT_OPTS:
                c = P(plan)
                c["ops"][i][3] = dict(DEFAULT_OPTS)
                yield f"default options op {i}", c
                for k, dv in DEFAULT_OPTS.items():
                    if op[3].get(k) != dv:
                        c = P(plan)
                        c["ops"][i][3][k] = dv
                        yield f"default {k} op {i}", c
            if op[4] != "serial":
                c = P(plan)
                c["ops"][i][4] = "serial"
                yield f"serial pool op {i}", c
        if op[0] == "agg_eval" and op[4] != "serial":
            c = P(plan)
            c["ops"][i][4] = "serial"
            yield f"serial pool op {i}", c
        if op[0] == "new_agg" and (op[2] or op[3]):
            c = P(plan)
            c["ops"][i][2] = False
            c["ops"][i][3] = False
            yield f"plain aggregator op {i}", c
        if op[0] in ("save_load", "pickle_copy", "deep_copy"):
            c = P(plan)
            c["ops"][i] = ["new_ev", _spec_of(plan, op[1])]
            yield f"{op[0]}->new_ev op {i}", c
    for si, spec in enumerate(plan["specs"]):
        if spec != SIMPLE_SPEC:
            c = P(plan)
            c["specs"][si] = P(SIMPLE_SPEC)
            for k in c["inputs"]:
                if k.startswith(f"s{si}k"):
                    c["inputs"][k] = P(SIMPLE_INPUT)
            yield f"simplest spec {si}", c
        for key, simple in (("ech", None), ("decision", None), ("save_group_times", False), ("log_times", False), ("verbose", False), ("groups", None)):
            if spec.get(key) != simple and not (key == "groups"):
                c = P(plan)
                c["specs"][si][key] = simple
                yield f"spec {si} {key}={simple}", c
    if plan.get("knobs", {}).get("cpu_count"):
        c = P(plan)
        c["knobs"]["cpu_count"] = None
        yield "real cpu count", c
    if plan.get("share_components"):
        c = P(plan)
        c["share_components"] = False
        yield "components not shared", c
    if plan.get("knobs", {}).get("clock_jump"):
        c = P(plan)
        c["knobs"]["clock_jump"] = 0.0
        yield "no clock jumps", c


def _spec_of(plan, ev_id):
    evs = []
    for op in plan["ops"]:
        if op[0] == "new_ev":
            evs.append(op[1])
        elif op[0] in ("save_load", "pickle_copy", "deep_copy"):
            evs.append(evs[op[1]] if op[1] < len(evs) else 0)
    return evs[ev_id] if ev_id < len(evs) else 0
