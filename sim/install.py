"""Attach the seams to panoptica's module-level names and verify the attachment.

Nothing in /repo is edited: every dependency listed in DESIGN.md §2.1 is reached through a
module global that is rebound here after import.  If a name is missing or has an unexpected
kind the harness stops with a HarnessError (exit 2), never with a verdict.
"""

from __future__ import annotations

import functools
import os
import sys

from . import seams
from .core import HarnessError
from .seams import WORLD

REPO = os.environ.get("VERIF_REPO", "/repo")
_installed = False
MODS = {}


def repo_path() -> str:
    return os.path.realpath(REPO)


def import_panoptica():
    os.environ.setdefault("OMP_NUM_THREADS", "1")
    os.environ.setdefault("OPENBLAS_NUM_THREADS", "1")
    os.environ.setdefault("MKL_NUM_THREADS", "1")
    os.environ["PANOPTICA_CITATION_REMINDER"] = "false"
    rp = repo_path()
    if sys.path[0] != rp:
        sys.path.insert(0, rp)
    # the lock factory is replaced *before* the package is imported: module-level
    # `filelock = Lock()` statements (and any lock the code creates later, in whatever process)
    # then produce SimLock objects, instead of the harness swapping lock objects afterwards
    import multiprocessing
    import multiprocessing.context

    seams.install_threading_seam("panoptica")
    MODS.setdefault("real_mp_lock", multiprocessing.Lock)
    MODS.setdefault("real_ctx_lock", multiprocessing.context.BaseContext.Lock)
    multiprocessing.Lock = seams.sim_lock_factory
    multiprocessing.context.BaseContext.Lock = lambda self: seams.SimLock()
    devnull = open(os.devnull, "w")
    old = sys.stdout
    sys.stdout = devnull
    try:
        import panoptica  # noqa: F401
        import panoptica._functionals as fn
        import panoptica.instance_evaluator as ie
        import panoptica.panoptica_aggregator as agg
        import panoptica.panoptica_evaluator as ev
        import panoptica.panoptica_statistics as st
        import panoptica.utils.timing as tm
    finally:
        sys.stdout = old
    got = os.path.realpath(os.path.dirname(os.path.dirname(panoptica.__file__)))
    if got != rp:
        raise HarnessError(f"panoptica imported from {got}, expected {rp}")
    MODS.update(panoptica=panoptica, fn=fn, ie=ie, agg=agg, ev=ev, st=st, tm=tm)
    return MODS


def _expect(mod, name, kind):
    if not hasattr(mod, name):
        raise HarnessError(f"attachment failed: {mod.__name__}.{name} does not exist")
    obj = getattr(mod, name)
    if kind == "lock":
        ok = hasattr(obj, "acquire") and hasattr(obj, "release")
    elif kind == "callable":
        ok = callable(obj)
    elif kind == "module":
        ok = hasattr(obj, "__name__")
    else:
        ok = True
    if not ok:
        raise HarnessError(f"attachment failed: {mod.__name__}.{name} is not a {kind}")


def install():
    """Idempotent.  Must run in a process that has no simulator threads yet."""
    global _installed
    if _installed:
        return MODS
    m = import_panoptica()
    agg, st, fn, ie, ev, tm = m["agg"], m["st"], m["fn"], m["ie"], m["ev"], m["tm"]

    n_locks = 0
    for name, mod in sorted(sys.modules.items()):
        if mod is None or not (name == "panoptica" or name.startswith("panoptica.")):
            continue
        for attr, val in list(vars(mod).items()):
            if isinstance(val, seams.SimLock):
                val.name = attr  # readable, deterministic names in event logs
                n_locks += 1
            elif type(val).__module__.startswith("multiprocessing.synchronize"):
                raise HarnessError(f"attachment failed: {name}.{attr} is a real multiprocessing primitive")
    MODS["module_level_locks"] = n_locks
    # the file, path, os, atexit and clock seams are attached to EVERY module of the package by
    # what a global is bound to, not by a fixed list of names: a refactoring may move the I/O into
    # another module, read the clock as time.perf_counter(), use Path.open() instead of open(), ...
    import atexit as _atexit
    import os as _os
    import pathlib
    import time as _time

    os_proxy, atexit_proxy, time_proxy = seams.OsProxy(), seams.AtexitProxy(), seams.TimeProxy()
    attached = {"open": 0, "os": 0, "Path": 0, "atexit": 0, "time": 0, "perf_counter": 0}
    for name, mod in sorted(sys.modules.items()):
        if mod is None or not (name == "panoptica" or name.startswith("panoptica.")):
            continue
        g = vars(mod)
        if "open" in g and g["open"] is not seams.sim_open and not getattr(g["open"], "__module__", "") in ("io", "builtins"):
            raise HarnessError(f"{name} defines its own open(); file seam cannot attach")
        g["open"] = seams.sim_open  # shadows the builtin inside this module only
        attached["open"] += 1
        for attr, val in list(g.items()):
            if val is _os:
                g[attr] = os_proxy
                attached["os"] += 1
            elif val is pathlib.Path or val is pathlib.PosixPath:
                g[attr] = seams.SimPath
                attached["Path"] += 1
            elif val is _atexit:
                g[attr] = atexit_proxy
                attached["atexit"] += 1
            elif val is _time:
                g[attr] = time_proxy
                attached["time"] += 1
            elif val is _time.perf_counter or val is _time.monotonic:
                g[attr] = seams.sim_perf_counter
                attached["perf_counter"] += 1
            elif val is _time.time:
                g[attr] = time_proxy.time
                attached["time"] += 1
            elif val is _os.remove or val is _os.unlink:
                g[attr] = os_proxy.remove
            elif val is _os.replace:
                g[attr] = os_proxy.replace
            elif val is _os.rename:
                g[attr] = os_proxy.rename
    MODS["attached"] = attached
    if not attached["os"] or not attached["Path"]:
        raise HarnessError(f"attachment failed: no os / Path reference found in the package ({attached})")
    if not (attached["time"] or attached["perf_counter"]):
        raise HarnessError(f"attachment failed: no clock reference found in the package ({attached})")
    # every module-level reference to multiprocessing's Pool inside the package, wherever a
    # refactoring may have moved it
    import multiprocessing
    import multiprocessing.pool

    real_pool = (multiprocessing.Pool, multiprocessing.pool.Pool)
    MODS["real_pool"] = multiprocessing.Pool
    rebound = []
    for name, mod in sorted(sys.modules.items()):
        if mod is None or not (name == "panoptica" or name.startswith("panoptica.")):
            continue
        for attr, val in list(vars(mod).items()):
            if any(val is r or val == r for r in real_pool):
                setattr(mod, attr, seams.SimPool)
                rebound.append(f"{name}.{attr}")
    multiprocessing.Pool = seams.SimPool
    # pools created through a context object: multiprocessing.get_context(...).Pool()
    MODS.setdefault("real_ctx_pool", multiprocessing.context.BaseContext.Pool)
    multiprocessing.context.BaseContext.Pool = lambda self, *a, **k: seams.SimPool(*a, **k)
    MODS["pool_refs"] = rebound

    # observation seam: entry / exit of Panoptica_Evaluator.evaluate
    cls = ev.Panoptica_Evaluator
    orig = cls.evaluate

    @functools.wraps(orig)
    def evaluate(self, *a, **k):
        h = WORLD.eval_hook
        if h is not None:
            h("enter", self, a, k, None)
        WORLD.point("eval.enter", "")
        res = orig(self, *a, **k)
        WORLD.point("eval.exit", "")
        if h is not None:
            h("exit", self, a, k, res)
        return res

    evaluate.__verif_wrapped__ = orig
    cls.evaluate = evaluate

    seams.install_audit()
    # everything imported so far goes to the permanent generation: garbage collections that the
    # simulator triggers at seeded moments then only look at objects created by the run
    import gc

    gc.collect()
    gc.freeze()
    _installed = True
    return MODS


def check_audit():
    """Every open/remove/mkdir of the code under test inside the scratch root must have gone
    through a seam.  Returns None or a description of the mismatch."""
    a, s = WORLD.audit_counts, WORLD.seam_counts
    keys = set(a) | set(s)
    bad = {k: (s.get(k, 0), a.get(k, 0)) for k in keys if s.get(k, 0) != a.get(k, 0)}
    # a file that is only *read* outside the seams (e.g. by a third-party parser) costs scheduling
    # points, not soundness: it is counted as a probe; anything that writes, creates, removes or
    # renames outside the seams stays a harness error
    if "open_read" in bad and a.get("open_read", 0) > s.get("open_read", 0):
        WORLD.stat("unseamed_read_opens", a["open_read"] - s.get("open_read", 0))
        del bad["open_read"]
    if bad:
        return f"file access bypassed the seams (seam,audit): {bad}"
    return None
