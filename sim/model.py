"""Building panoptica objects from plain specifications, the strict TSV reader used by the
oracles (never the code under test), value canonicalisation, and sequential reference sessions."""

from __future__ import annotations

import csv
import io
import math
import os
import struct

import numpy as np

from .install import MODS
from .seams import WORLD


# --------------------------------------------------------------------------- builders
def build_evaluator(spec: dict, shared: dict | None = None):
    """`shared`: a dict in which the component objects (approximator, matcher, handler, class
    groups, metric lists) of this specification are kept, so that several evaluators built from
    it share the *same* component objects (as user code that builds them once does)."""
    import panoptica as P
    from panoptica.instance_matcher import MaximizeMergeMatching, NaiveThresholdMatching
    from panoptica.utils.constants import CCABackend
    from panoptica.utils.edge_case_handling import EdgeCaseHandler, EdgeCaseResult, MetricZeroTPEdgeCaseHandling
    from panoptica.utils.label_group import LabelGroup, LabelMergeGroup
    from panoptica.utils.segmentation_class import SegmentationClassGroups

    M = P.Metric
    kw = {"expected_input": P.InputType[spec["input"]]}
    if spec.get("approx") is not None:
        b = spec["approx"]
        kw["instance_approximator"] = P.ConnectedComponentsInstanceApproximator(cca_backend=None if b == "auto" else CCABackend[b])
    m = spec.get("matcher")
    if m is not None:
        if m["kind"] == "naive":
            kw["instance_matcher"] = NaiveThresholdMatching(matching_metric=M[m["metric"]], matching_threshold=m["thr"], allow_many_to_one=m["many"])
        else:
            kw["instance_matcher"] = MaximizeMergeMatching(matching_metric=M[m["metric"]], matching_threshold=m["thr"])
    e = spec.get("ech")
    if e is not None:
        d = {}
        for name, h in e["metrics"].items():
            d[M[name]] = MetricZeroTPEdgeCaseHandling(
                default_result=EdgeCaseResult[h["default"]],
                no_instances_result=None if h["no_instances"] is None else EdgeCaseResult[h["no_instances"]],
                empty_prediction_result=None if h["empty_pred"] is None else EdgeCaseResult[h["empty_pred"]],
                empty_reference_result=None if h["empty_ref"] is None else EdgeCaseResult[h["empty_ref"]],
                normal=None if h["normal"] is None else EdgeCaseResult[h["normal"]],
            )
        kw["edge_case_handler"] = EdgeCaseHandler(listmetric_zeroTP_handling=d, empty_list_std=EdgeCaseResult[e["empty_list_std"]])
    g = spec.get("groups")
    if g is not None:
        gd = {}
        for x in g:
            cls = LabelMergeGroup if x["merge"] else LabelGroup
            gd[x["name"]] = cls(list(x["labels"]), single_instance=x["single"])
        kw["segmentation_class_groups"] = SegmentationClassGroups(gd)
    if spec.get("inst_metrics") is not None:
        kw["instance_metrics"] = [M[x] for x in spec["inst_metrics"]]
    if spec.get("glob_metrics") is not None:
        kw["global_metrics"] = [M[x] for x in spec["glob_metrics"]]
    if spec.get("decision") is not None:
        kw["decision_metric"] = M[spec["decision"][0]]
        kw["decision_threshold"] = spec["decision"][1]
    for k in ("save_group_times", "log_times", "verbose"):
        if spec.get(k):
            kw[k] = True
    if shared is not None:
        for k in ("instance_approximator", "instance_matcher", "edge_case_handler", "segmentation_class_groups", "instance_metrics", "global_metrics"):
            if k in kw:
                kw[k] = shared.setdefault(k, kw[k])
    return P.Panoptica_Evaluator(**kw)


def build_arrays(inp: dict):
    shape = tuple(inp["shape"])
    dt = np.dtype(inp["dtype"])
    order = inp.get("order", "C")
    pred = np.array(inp["pred"], dtype=dt).reshape(shape)
    ref = np.array(inp["ref"], dtype=dt).reshape(shape)
    if order == "F":
        pred = np.asfortranarray(pred)
        ref = np.asfortranarray(ref)
    if inp.get("byteorder") and dt.itemsize > 1:
        pred = pred.astype(dt.newbyteorder(inp["byteorder"]))
        ref = ref.astype(dt.newbyteorder(inp["byteorder"]))
    if inp.get("poison"):
        # a malformed pair (shape mismatch): the evaluation of this subject raises
        ref = ref[:-1].copy()
    if inp.get("strided"):
        def view(a):
            big = np.zeros(tuple(2 * n for n in a.shape), dtype=a.dtype)
            v = big[tuple(slice(None, None, 2) for _ in a.shape)]
            v[...] = a
            return v
        pred, ref = view(pred), view(ref)
    if inp.get("alias"):
        ref = pred
    if inp.get("readonly"):
        pred.flags.writeable = False
        ref.flags.writeable = False
    return pred, ref


def array_fingerprint(a: np.ndarray):
    return (a.tobytes(order="A"), str(a.dtype), a.shape, a.strides, a.flags.c_contiguous, a.flags.f_contiguous, a.flags.writeable)


# --------------------------------------------------------------------------- values
def canon(v):
    """Bit-exact, JSON-able canonical form of a reported value (NaN == NaN)."""
    if v is None:
        return None
    if isinstance(v, (bool, np.bool_)):
        return ["b", bool(v)]
    if isinstance(v, (int, np.integer)):
        return ["i", int(v)]
    if isinstance(v, (float, np.floating)):
        f = float(v)
        if math.isnan(f):
            return ["f", "nan"]
        return ["f", struct.pack(">d", f).hex()]
    if isinstance(v, (list, tuple)):
        return ["l", [canon(x) for x in v]]
    if isinstance(v, np.ndarray):
        return ["a", str(v.dtype), list(v.shape), v.tobytes().hex()[:256]]
    return ["r", repr(v)[:200]]


def float_bits(f: float) -> str:
    return struct.pack(">d", f).hex()


# --------------------------------------------------------------------------- strict TSV
class TsvError(Exception):
    pass


def read_bytes(path) -> bytes | None:
    armed = WORLD.armed
    WORLD.armed = False
    try:
        if not os.path.exists(path):
            return None
        with open(path, "rb") as f:
            return f.read()
    finally:
        WORLD.armed = armed


def parse_tsv(data: bytes):
    """Strict reader for what csv.writer(delimiter='\\t', lineterminator='\\n') produces.
    Returns list of rows (lists of str).  Raises TsvError on undecodable bytes, on a missing
    final newline (torn last record) and on csv dialect errors."""
    try:
        text = data.decode("utf8")
    except UnicodeDecodeError as e:
        raise TsvError(f"not utf8: {e}") from None
    if text and not text.endswith("\n"):
        raise TsvError("file does not end with a newline (torn record)")
    try:
        rows = list(csv.reader(io.StringIO(text, newline=""), delimiter="\t", lineterminator="\n", strict=True))
    except csv.Error as e:
        raise TsvError(f"csv error: {e}") from None
    return rows


def expected_header(group_names, metric_keys):
    return ["subject_name"] + [f"{g}-{m}" for g in group_names for m in metric_keys]


# --------------------------------------------------------------------------- reference session
def reference_rows(spec: dict, inputs: dict, refdir: str, log_times: bool):
    """What a sequential, single-task session writes for each input: built with its own
    evaluator and aggregator in its own directory, outside any scheduler.
    Returns (header, {input_key: fields-after-the-subject}, metric_keys, group_names, invalid, missing):
    invalid = inputs for which the evaluation itself raises (outside every property's
    quantifier); missing = inputs whose evaluation returned normally but left no row."""
    agg = MODS["agg"]
    out = os.path.join(refdir, "ref.tsv")
    ev = build_evaluator(spec)
    keys = list(ev.resulting_metric_keys)
    gnames = list(ev.segmentation_class_groups_names)
    a = agg.Panoptica_Aggregator(ev, out, log_times=log_times)
    invalid = {}
    order = []
    for k in sorted(inputs):
        pred, ref = build_arrays(inputs[k])
        try:
            a.evaluate(pred, ref, "ref:" + k)
            order.append(k)
        except Exception as e:  # noqa: BLE001 - generated input not valid for this spec
            invalid[k] = f"{type(e).__name__}: {str(e)[:200]}"
    rows = parse_tsv(read_bytes(out))
    header = rows[0]
    got = {}
    for r in rows[1:]:
        if r and r[0].startswith("ref:"):
            got[r[0][4:]] = r[1:]
    missing = [k for k in order if k not in got]
    return header, got, keys + (["computation_time"] if log_times else []), gnames, invalid, missing


# --------------------------------------------------------------------------- stub evaluator
def decode_value(x):
    """Plan encoding of a reported value -> Python value.  ["i",n] int, ["f",hex] float,
    ["F",hex] numpy float64, "nan", "inf", None (reported None), "missing" (not reported)."""
    if x is None or x == "missing":
        return x
    if x == "nan":
        return float("nan")
    if x == "inf":
        return float("inf")
    if x == "ninf":
        return float("-inf")
    if x == "npnan":
        return np.float64("nan")
    if x[0] == "i":
        return int(x[1])
    if x[0] == "I":
        return np.int64(x[1])
    if x[0] == "f":
        return float.fromhex(x[1])
    if x[0] == "F":
        return np.float64(float.fromhex(x[1]))
    raise ValueError(x)


class StubResult:
    def __init__(self, d, computation_time):
        self._d = d
        self.computation_time = computation_time

    def to_dict(self):
        return dict(self._d)


class StubEvaluator:
    """The three attributes the aggregator uses, returning generated result dictionaries
    (restricted to what a PanopticaResult can report).  The input is identified by the first
    element of the prediction array."""

    def __init__(self, stub: dict, save_group_times=False):
        self._stub = stub
        self._save_group_times = save_group_times

    @property
    def segmentation_class_groups_names(self):
        return list(self._stub["groups"])

    @property
    def resulting_metric_keys(self):
        return list(self._stub["keys"])

    def set_log_group_times(self, v):
        self._save_group_times = v

    def evaluate(self, prediction_arr, reference_arr, result_all=True, save_group_times=None, log_times=None, verbose=None):
        h = WORLD.eval_hook
        if h is not None:
            h("enter", self, (prediction_arr, reference_arr), {}, None)
        WORLD.point("eval.enter", "")
        idx = int(prediction_arr.reshape(-1)[0])
        table = self._stub["values"][f"k{idx}"]
        out = {}
        for g in self._stub["groups"]:
            d = {}
            for m, x in table[g].items():
                if x == "missing":
                    continue
                d[m] = decode_value(x)
            ct = None
            if self._save_group_times:
                from .seams import sim_perf_counter

                t0 = sim_perf_counter()
                ct = sim_perf_counter() - t0
            out[g] = (StubResult(d, ct), None)
        WORLD.point("eval.exit", "")
        if h is not None:
            h("exit", self, (prediction_arr, reference_arr), {}, out)
        return out


_build_real = build_evaluator


def build_evaluator(spec: dict, shared: dict | None = None):  # noqa: F811 - dispatch on stub specifications
    if spec.get("stub") is not None:
        return StubEvaluator(spec["stub"], save_group_times=bool(spec.get("save_group_times")))
    return _build_real(spec, shared)


def spec_variant(spec: dict, variant):
    """The same configuration declared differently (e.g. class groups in another order)."""
    if not variant:
        return spec
    import copy

    sp = copy.deepcopy(spec)
    order = variant.get("group_order")
    if order:
        if sp.get("stub") is not None:
            g = sp["stub"]["groups"]
            if sorted(order) == list(range(len(g))):
                sp["stub"]["groups"] = [g[i] for i in order]
        elif sp.get("groups"):
            g = sp["groups"]
            if sorted(order) == list(range(len(g))):
                sp["groups"] = [g[i] for i in order]
    return sp
