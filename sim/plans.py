"""Seeded plan generators for the aggsim engine (C16, C17, C18/C20)."""

from __future__ import annotations

import random

from . import gen


def _knobs(rng, *, conc=True):
    return {
        "mode": rng.choice(["threads", "threads", "procs", "forked", "procs", "forked", "mixed", "libpool"]),
        "fork_at": rng.choice(["spawn", "spawn", "first_run"]),
        "line_preempt": conc and rng.random() < 0.25,
        "pool": rng.choice(["serial", "sim", "sim"]),
        "pool_workers": rng.choice([1, 2, 3, 16]),
        "pool_points": rng.random() < 0.85,
        "stay": rng.choice([0.0, 0.3, 0.5, 0.7, 0.9]),
        "state_digest": rng.random() < 0.1,
        "clock_jump": rng.choice([0.0, 0.0, 0.2]),
        "workdir": rng.choice(["w", "w", "w", "w.v2", "my data", "résultats"]),
        "relpath": rng.choice([None, None, None, None, "", "./"]),
        "pct_depth": rng.choice([0, 0, 0, 0, 0, 1, 2, 3]) if conc else 0,
        "locale": rng.choice([None, None, None, None, None, "de_DE"]),
        "mtime_granularity": rng.choice([None, None, 1.0, 2.0]),
        "clock_slow": rng.random() < 0.4,
        "symlink": rng.random() < 0.1,
        "gc": rng.choice([None, None, None, 0.02, 0.15]),
        "stall": rng.choice([None, None, 0.3]),
        "stall_task": rng.choice([None, 0.01, 0.03, 0.06]) if conc else None,
    }


FILE_PAIRS = [("out.tsv", "sib.tsv"), ("out.tsv", "sib.tsv"), ("exp.fold0.tsv", "exp.fold1.tsv"), ("run.tsv", "run.v2.tsv"), ("a.tsv", "a_b.tsv"),
              ("res 1.tsv", "res 2.tsv"), ("Out.tsv", "out.tsv"), ("x.y.z.tsv", "x.y.tsv"), ("ß.tsv", "s.tsv"), ("data.tsv", "data_panoptica_aggregator_tmp2.tsv")]


def _alt_phases(plan, rng):
    """A restarted run is a new interpreter: later phases (and the loader) run, with probability
    one half each, in an image of the alternate template (other str-hash seed)."""
    n = len(plan["phases"])
    alt = [pi for pi in range(1, n) if rng.random() < 0.5]
    if plan.get("check_loader") and rng.random() < 0.3:
        alt.append(n)
    plan["knobs"]["alt_phases"] = alt


def _inputs(rng, spec, n, **kw):
    return {f"k{i}": gen.gen_input(rng, spec, **kw) for i in range(n)}


def _add_poison(plan, rng, prob=0.12):
    """Some subjects are malformed (their evaluation raises); the caller guards each call.  The
    property must keep holding for all the other subjects."""
    if rng.random() > prob:
        return
    import copy

    k0 = sorted(plan["inputs"])[0]
    bad = copy.deepcopy(plan["inputs"][k0])
    if bad["shape"][0] < 2 or plan["spec"].get("stub") is not None:
        return
    bad["poison"] = True
    plan["inputs"]["bad"] = bad
    names = ["bad-subject", "broken 1"]
    for ph in plan["phases"]:
        for sess in ph["sessions"]:
            for nm in names[: rng.randint(1, 2)]:
                tasks = sess["tasks"]
                if not tasks:
                    continue
                t = rng.choice(tasks)
                t.insert(rng.randrange(len(t) + 1), ["eval", t[0][1] if t else 0, nm, "bad"])


def plan_c16(seed: int) -> dict:
    """One session, 2-4 concurrent tasks calling evaluate (distinct and colliding names) and
    make_statistic on one shared aggregator; no faults."""
    rng = random.Random(seed)
    spec = gen.gen_spec(rng, plain_groups=True, max_groups=3, cheap=True)
    n_inputs = rng.randint(1, 3)
    inputs = _inputs(rng, spec, n_inputs, max_side=7, max_inst=3)
    n_tasks = rng.randint(2, 4)
    n_subj = rng.randint(1, 5)
    names = gen.subject_names(rng, n_subj)
    subj_input = {s: rng.choice(sorted(inputs)) for s in names}
    tasks = []
    n_stat = 0
    for _ in range(n_tasks):
        ops = []
        for _ in range(rng.choice([1, 1, 2, 3])):
            if rng.random() < 0.22 and n_stat < 3:
                ops.append(["stat", 0])
                n_stat += 1
            else:
                s = rng.choice(names)  # collisions arise naturally when n_subj is small
                ops.append(["eval", 0, s, subj_input[s]])
        tasks.append(ops)
    if not any(op[0] == "eval" for ops in tasks for op in ops):
        tasks[0][0] = ["eval", 0, names[0], subj_input[names[0]]]
    files = {"out.tsv": {"initial": "absent", "log_times": rng.random() < 0.25}}
    if rng.random() < 0.2:
        k = rng.randint(1, len(names))
        files["out.tsv"]["initial"] = "rows"
        files["out.tsv"]["initial_subjects"] = [[s, subj_input[s]] for s in names[:k]]
        if rng.random() < 0.2:
            files["out.tsv"]["initial_bulk"] = rng.choice([60, 300, 900])
    plan = {
        "engine": "aggsim", "property": "C16", "seed": seed, "knobs": _knobs(rng),
        "spec": spec, "inputs": inputs, "files": files,
        "phases": [{"sessions": [{"group": "A", "aggs": ["out.tsv"], "tasks": tasks, "end": "graceful",
                                  "path_kind": rng.choice(["str", "path"]), "main_stat": rng.random() < 0.3}]}],
        "schedule": None,
    }
    _add_poison(plan, rng)
    if files["out.tsv"]["initial"] == "absent" and rng.random() < 0.25:
        plan["phases"][0]["sessions"][0]["continue_file"] = False
    # one of the concurrent calls fails at a file operation and its caller carries on: the
    # other calls must neither block for ever nor lose or duplicate their rows
    _add_soft_faults(plan, seed, prob=0.3, last_too=True)
    return plan


def _add_soft_faults(plan, seed, prob=0.6, last_too=False):
    """Single-call faults: in sessions before the last one, an evaluate / make_statistic call fails
    at its n-th file open (an interrupt delivered to that call only, or EMFILE); the caller
    catches it and the interpreter - with its lock objects - keeps running.  Own generator, so
    that the rest of the plan of a seed is what it was before this fault kind existed."""
    rng = random.Random((seed << 8) ^ 0x50F7)
    if plan["knobs"].get("mode") not in ("threads", "mixed") or rng.random() >= prob:
        return
    for ph in (plan["phases"] if last_too else plan["phases"][:-1]):
        for sess in ph["sessions"]:
            if sess.get("isolated"):
                continue
            for ops in sess["tasks"]:
                for op in ops:
                    if op[0] in ("eval", "stat") and rng.random() < 0.3:
                        op.append({"soft": [rng.randint(1, 3 if op[0] == "eval" else 1), rng.choice(["kbdint", "emfile"])]})


def plan_c17(seed: int, *, faults=True) -> dict:
    """1-4 sessions on one output file (optionally a sibling aggregator on another file in the
    same directory), each session ending by kill, interrupt or gracefully; the last session
    resubmits everything and runs to completion."""
    rng = random.Random(seed)
    spec = gen.gen_spec(rng, plain_groups=True, max_groups=3, cheap=True)
    inputs = _inputs(rng, spec, rng.randint(1, 3), max_side=7, max_inst=3)
    names = gen.subject_names(rng, rng.randint(1, 5))
    subj_input = {s: rng.choice(sorted(inputs)) for s in names}
    sibling = rng.random() < 0.4
    MAIN, SIB = rng.choice(FILE_PAIRS)
    files = {MAIN: {"initial": rng.choice(["absent", "absent", "empty", "header", "rows"]), "log_times": rng.random() < 0.2}}
    if files[MAIN]["initial"] == "rows":
        k = rng.randint(1, len(names))
        files[MAIN]["initial_subjects"] = [[s, subj_input[s]] for s in names[:k]]
        if rng.random() < 0.12:
            files[MAIN]["initial_bulk"] = rng.choice([60, 300, 900])
    sib_names = []
    if sibling:
        files[SIB] = {"initial": rng.choice(["absent", "absent", "header", "rows"]), "log_times": files[MAIN]["log_times"] if rng.random() < 0.7 else not files[MAIN]["log_times"]}
        # deliberately overlapping subject names between the two files
        sib_names = [s for s in names if rng.random() < 0.7] or names[:1]
        if files[SIB]["initial"] == "rows":
            files[SIB]["initial_subjects"] = [[s, subj_input[s]] for s in sib_names[: rng.randint(1, len(sib_names))]]
    n_sessions = rng.randint(1, 4)
    phases = []

    def mk_tasks(agg_idx, subjects, ntasks, shuffle=True):
        subs = subjects[:]
        if shuffle:
            rng.shuffle(subs)
        tasks = [[] for _ in range(ntasks)]
        for i, s in enumerate(subs):
            tasks[i % ntasks].append(["eval", agg_idx, s, subj_input[s]])
            if rng.random() < 0.12:
                # an interim statistic between evaluations, and sometimes the same subject again
                tasks[i % ntasks].append(["stat", agg_idx])
                if rng.random() < 0.5:
                    tasks[i % ntasks].append(["eval", agg_idx, s, subj_input[s]])
        return [t for t in tasks if t]

    for si in range(n_sessions):
        last = si == n_sessions - 1
        sessions = []
        end = "graceful"
        if faults and not last:
            end = rng.choice(["kill", "kill", "kill", "interrupt", "graceful"])
        sess = {"group": f"A{si}", "aggs": [MAIN], "tasks": mk_tasks(0, names, rng.randint(1, 3)), "end": end,
                "path_kind": rng.choice(["str", "path"])}
        if rng.random() < 0.12:
            sess["recreate"] = rng.choice(["drop_first", "drop_after"])
        if rng.random() < 0.3:
            # the same output file spelled differently from session to session
            sess["spelling"] = rng.choice(["absolute", "relative", "dotted", "updown", "symlink"])
        if not last and rng.random() < 0.3:
            # a partial submission: only some subjects in this session
            keep = [t for t in sess["tasks"] if rng.random() < 0.7] or sess["tasks"][:1]
            sess["tasks"] = keep
        if end != "graceful":
            sess["fault_frac"] = rng.random()
        sessions.append(sess)
        if sibling:
            same_group = rng.random() < 0.5
            if same_group:
                # one script, two aggregators, shared locks
                sess["aggs"] = [MAIN, SIB]
                if rng.random() < 0.5:
                    sess["aggs"].reverse()
                    for t in sess["tasks"]:
                        for op in t:
                            op[1] = 1
                sess["share_evaluator"] = rng.random() < 0.5
                sib_idx = sess["aggs"].index(SIB)
                extra = mk_tasks(sib_idx, sib_names, rng.randint(1, 2))
                sess["tasks"] = sess["tasks"] + extra
                rng.shuffle(sess["tasks"])
            else:
                send = "graceful"
                if faults and not last and rng.random() < 0.3:
                    send = "kill"
                s2 = {"group": f"B{si}", "aggs": [SIB], "tasks": mk_tasks(0, sib_names, rng.randint(1, 2)), "end": send}
                if send != "graceful":
                    s2["fault_frac"] = rng.random()
                sessions.append(s2)
        phases.append({"sessions": sessions})
    if not sibling and rng.random() < 0.15:
        # two unrelated scripts in two directories, each with its own working directory, writing a
        # file of the same (relative) name: separate operating-system processes
        files = {"job_a/" + MAIN: dict(files[MAIN]), "job_b/" + MAIN: {"initial": "absent", "log_times": files[MAIN]["log_times"]}}
        for ph in phases:
            sa = ph["sessions"][0]
            sa["aggs"] = ["job_a/" + MAIN]
            sa["isolated"] = {"cwd": "job_a"}
            sa.pop("recreate", None)
            sb = {"group": "B" + sa["group"][1:], "aggs": ["job_b/" + MAIN], "tasks": mk_tasks(0, names, rng.randint(1, 2)), "end": "graceful", "isolated": {"cwd": "job_b"}}
            ph["sessions"] = [sa, sb]
    plan = {
        "engine": "aggsim", "property": "C17", "seed": seed, "knobs": _knobs(rng),
        "spec": spec, "inputs": inputs, "files": files, "phases": phases, "schedule": None,
    }
    _alt_phases(plan, rng)
    _add_poison(plan, rng)
    _add_soft_faults(plan, seed)
    if "bad" not in plan["inputs"]:
        # a restart may also happen under `python -O` (assert statements stripped).  Not combined
        # with malformed subjects, whose rejection by the library is itself an assert.
        opt = [pi for pi in range(1, len(plan["phases"])) if pi not in plan["knobs"]["alt_phases"] and rng.random() < 0.2]
        plan["knobs"]["opt_phases"] = opt
    # the output name may be given without its extension (documented: ".tsv" is appended)
    for fname in list(files):
        if fname.endswith(".tsv") and "." not in fname[:-4] and "/" not in fname and rng.random() < 0.15:
            files[fname]["given"] = fname[:-4]
    return plan


def plan_c18(seed: int) -> dict:
    """Sequential sessions appending rows; awkward group and subject names; values incl.
    NaN/inf/None through random edge-case handlers.  Oracle: loader == model (C18), summaries
    == statistics of the model (C20)."""
    rng = random.Random(seed)
    spec = gen.gen_spec(rng, plain_groups=False, max_groups=6, cheap=rng.random() < 0.6)
    inputs = _inputs(rng, spec, rng.randint(1, 5), max_side=8, max_inst=4)
    names = gen.subject_names(rng, rng.randint(1, 8), awkward=0.4)
    subj_input = {s: rng.choice(sorted(inputs)) for s in names}
    n_sessions = rng.randint(1, 3)
    cuts = sorted(rng.sample(range(1, len(names)), min(n_sessions - 1, len(names) - 1))) if len(names) > 1 else []
    parts, prev = [], 0
    for c in cuts + [len(names)]:
        parts.append(names[prev:c])
        prev = c
    parts = [p for p in parts if p]
    conc = rng.random() < 0.3
    phases = []
    for si, p in enumerate(parts):
        ops = [["eval", 0, s, subj_input[s]] for s in p]
        if conc:
            nt = rng.randint(1, 3)
            tasks = [ops[i::nt] for i in range(nt)]
            tasks = [t for t in tasks if t]
        else:
            tasks = [ops]
        phases.append({"sessions": [{"group": f"S{si}", "aggs": ["out.tsv"], "tasks": tasks, "end": "graceful",
                                      "path_kind": rng.choice(["str", "path"]), "main_stat": rng.random() < 0.3}]})
    k = _knobs(rng, conc=conc)
    if not conc:
        k["mode"] = "threads"
    return {
        "engine": "aggsim", "property": "C18", "seed": seed, "knobs": k,
        "spec": spec, "inputs": inputs, "files": {"out.tsv": {"initial": "absent", "log_times": rng.random() < 0.3}},
        "phases": phases, "schedule": None, "check_loader": True,
    }


# --------------------------------------------------------------------------- stub tables (C18 / C20)
def _stub_value(rng):
    r = rng.random()
    if r < 0.10:
        return "missing"
    if r < 0.18:
        return None
    if r < 0.26:
        return rng.choice(["nan", "npnan"])
    if r < 0.30:
        return "inf"
    if r < 0.32:
        # negative infinity: no metric of the library produces it today, but the loader's
        # contract ("infinite entries excluded") does not depend on the sign
        return "ninf"
    if r < 0.45:
        return [rng.choice(["i", "I"]), rng.choice([0, 1, 2, 3, 7, 100, 2**31, 10**15])]
    kind = rng.choice(["unit", "unit", "small", "big", "neg", "tiny", "exact"])
    if kind == "unit":
        f = rng.random()
    elif kind == "small":
        f = rng.random() * 10 ** rng.randint(-12, 3)
    elif kind == "big":
        f = rng.random() * 10 ** rng.randint(3, 120)
    elif kind == "neg":
        f = -rng.random() * 10 ** rng.randint(-3, 3)
    elif kind == "tiny":
        f = rng.choice([5e-324, 2.2250738585072014e-308, -0.0, 1e-300, 1 / 3, 0.1 + 0.2])
    else:
        f = rng.choice([0.0, 1.0, 0.5, 0.75, 2.0])
    return [rng.choice(["f", "F"]), float(f).hex()]


def gen_stub(rng, n_inputs):
    ng = rng.randint(1, 6)
    groups = [g.lower() for g in gen.group_names(rng, ng)]
    pool = ["num_ref_instances", "num_pred_instances", "tp", "fp", "fn", "prec", "rec", "rq", "sq", "sq_std", "pq", "sq_dsc", "sq_dsc_std", "pq_dsc",
            "sq_assd", "sq_assd_std", "sq_rvd", "sq_rvd_std", "global_bin_dsc", "global_bin_iou"]
    keys = rng.sample(pool, rng.randint(1, 8))
    # per column: independent values, or values clustered around a large base (large compared
    # with their spread: counts, volumes), or one constant
    mode = {}
    for g in groups:
        for m in keys:
            r = rng.random()
            if r < 0.15:
                base = rng.choice([2.0**27, 1e6, 1e9, 123456789.0, 2.0**40, 1e12, 33554432.0])
                mode[(g, m)] = ("cluster", base, rng.choice([1, 1, 3, 0.5, 1e-3]))
            elif r < 0.2:
                mode[(g, m)] = ("const", rng.choice([0.0, 1.0, 0.5, 1e6 + 0.1]))
            else:
                mode[(g, m)] = ("free",)

    def val(g, m):
        md = mode[(g, m)]
        if md[0] == "free" or rng.random() < 0.1:
            return _stub_value(rng)
        if md[0] == "const":
            return ["f", float(md[1]).hex()]
        return [rng.choice(["f", "F"]), float(md[1] + md[2] * rng.randint(0, 6)).hex()]

    values = {}
    for i in range(n_inputs):
        values[f"k{i}"] = {g: {m: val(g, m) for m in keys} for g in groups}
    return {"groups": groups, "keys": keys, "values": values}


def _stubify(plan, rng):
    n = len(plan["inputs"])
    plan["spec"] = {"stub": gen_stub(rng, n), "save_group_times": rng.random() < 0.3}
    plan["inputs"] = {f"k{i}": {"shape": [1], "dtype": "uint8", "pred": [i], "ref": [i], "order": "C"} for i in range(n)}
    return plan


_plan_c18_real = plan_c18


def _reorder_later_sessions(plan, rng):
    """A later session declares the same class groups in another order (a restart with the
    'same' setup written differently): it must be refused or file its values correctly."""
    spec = plan["spec"]
    groups = spec["stub"]["groups"] if spec.get("stub") else (spec.get("groups") or [])
    if len(groups) < 2 or len(plan["phases"]) < 2:
        return
    for ph in plan["phases"][1:]:
        if rng.random() < 0.4:
            order = list(range(len(groups)))
            rng.shuffle(order)
            if order != sorted(order):
                for sess in ph["sessions"]:
                    sess["spec_variant"] = {"group_order": order}


def _add_decoy(plan, rng):
    """Another evaluator with a related but different configuration is created and used in the
    same process before the one under test (same instance metrics, other global metrics, ...)."""
    spec = plan["spec"]
    if spec.get("stub") is not None or rng.random() > 0.35:
        return
    import copy

    d = copy.deepcopy(spec)
    r = rng.random()
    pool = ["DSC", "IOU", "RVD", "ASSD"]
    if r < 0.5:
        cur = d["glob_metrics"] if d["glob_metrics"] is not None else ["DSC"]
        d["glob_metrics"] = [m for m in pool if m not in cur][: rng.randint(0, 2)]
    elif r < 0.8:
        cur = d["inst_metrics"] if d["inst_metrics"] is not None else ["DSC", "IOU", "ASSD", "RVD"]
        d["inst_metrics"] = [m for m in cur if rng.random() < 0.6] or ["DSC"]
        d["decision"] = None
    else:
        d["groups"] = None
    if d.get("ech") is not None:
        d["ech"] = None if rng.random() < 0.5 else d["ech"]
        if d["ech"] is not None:
            for m in set(d["inst_metrics"] or []) | set(d["glob_metrics"] or []) | {"DSC", "IOU", "ASSD", "RVD"}:
                d["ech"]["metrics"].setdefault(m, {"default": "NAN", "no_instances": None, "empty_pred": None, "empty_ref": None, "normal": None})
    sess = plan["phases"][rng.randrange(len(plan["phases"]))]["sessions"][0]
    sess["decoy"] = {"spec": d, "keys": rng.random() < 0.8, "aggregator": rng.random() < 0.5, "log_times": rng.random() < 0.5}


def plan_c18(seed: int) -> dict:  # noqa: F811
    rng = random.Random(seed ^ 0x57B)
    plan = _plan_c18_real(seed)
    if rng.random() < 0.3:
        _stubify(plan, rng)
    _reorder_later_sessions(plan, rng)
    _add_decoy(plan, rng)
    _alt_phases(plan, rng)
    return plan


def plan_c20(seed: int) -> dict:
    """Same family as C18 with more subjects per table, a larger share of stub tables (wider
    value space, more missing-value patterns) and concurrent row production (row order is
    made by the schedule)."""
    rng = random.Random(seed ^ 0xC20)
    plan = _plan_c18_real(seed)
    plan["property"] = "C20"
    if rng.random() < 0.6:
        _stubify(plan, rng)
    _alt_phases(plan, rng)
    r = rng.random()
    if r < 0.12:
        # the last session is killed (its claim file stays behind) ...
        plan["phases"][-1]["sessions"][0]["end"] = "kill"
        plan["phases"][-1]["sessions"][0]["hazard_p"] = 0.01
    if r < 0.2:
        # ... and/or the table is re-saved without its final line terminator before it is loaded
        plan["strip_final_newline"] = True
    return plan
