"""Worker *processes* as real forked operating-system processes under the central scheduler.

In the process models `procs` and `forked` every worker task is a child forked from the session's
parent (the thread that runs the session's main task) at the moment the workers are started.
The child therefore owns a copy-on-fork image of the interpreter: module-level state, objects,
locks created before the fork are inherited; whatever it or a sibling changes afterwards is
private - the real semantics of `fork`, which tasks-as-threads cannot give.

The child does not schedule itself.  Every scheduling point, lock operation and clock reading is
a message to its *proxy task* in the parent - an ordinary task (thread) of the central scheduler
which performs the operation on the child's behalf and answers when the child may proceed.  At
any time at most one process runs; the others are blocked reading their pipe, so an execution
is still a function of the seed.  SIGKILL of the group = the proxies are never scheduled again
and the children are killed when the phase image ends."""

from __future__ import annotations

import ctypes
import os
import pickle
import signal
import struct
import threading

from .core import SimInterrupt


def _send(fd, obj):
    data = pickle.dumps(obj, protocol=pickle.HIGHEST_PROTOCOL)
    data = struct.pack(">I", len(data)) + data
    off = 0
    while off < len(data):
        off += os.write(fd, data[off:])


def _recv(fd):
    hdr = b""
    while len(hdr) < 4:
        b = os.read(fd, 4 - len(hdr))
        if not b:
            return None
        hdr += b
    (n,) = struct.unpack(">I", hdr)
    buf = b""
    while len(buf) < n:
        b = os.read(fd, n - len(buf))
        if not b:
            return None
        buf += b
    return pickle.loads(buf)


class _StubGroup:
    def __init__(self, g):
        self.gid = g.gid
        self.name = g.name
        self.alive = True
        self.interrupting = False
        self.atexit = []  # handlers registered in a forked child never run (children leave via os._exit)
        self.locks = {}
        self.meta = {}


class _StubTask:
    def __init__(self, tid, name, group):
        self.tid = tid
        self.name = name
        self.group = group
        self.ctx = {}
        self.thread = None
        self.interrupted = False


class RemoteSched:
    """What WORLD.sched is inside a forked worker process."""

    def __init__(self, cmd_r, msg_w, tid, name, group, tag):
        self.cmd_r = cmd_r
        self.msg_w = msg_w
        self.current = _StubTask(tid, name, _StubGroup(group))
        self.remote_tag = tag
        self.unwinding = False
        self.log = []
        self.on_point = None
        self.tasks = []
        self.step = 0

    def in_task(self):
        return True

    def send(self, msg):
        _send(self.msg_w, msg)

    def _wait(self):
        r = _recv(self.cmd_r)
        if r is None:
            os._exit(0)  # the phase image is gone (or this group was killed and the phase ended)
        return r

    def _rpc(self, msg):
        self.send(msg)
        r = self._wait()
        if r[0] == "interrupt":
            self.unwinding = True
            self.current.interrupted = True
            raise SimInterrupt()
        return r[1] if len(r) > 1 else None

    def wait_go(self):
        r = self._wait()
        if r[0] == "interrupt":
            self.unwinding = True
            raise SimInterrupt()

    gc_rng = None
    gc_prob = 0.0

    def point(self, kind, detail=""):
        if self.unwinding:
            self.send(("unwind", kind, detail))
            return
        if self.gc_rng is not None and self.gc_rng.random() < self.gc_prob:
            import gc

            gc.collect()  # this worker process's collector runs now
            self.send(("count", "gc_collect", 1))
        self._rpc(("point", kind, detail))

    def lock_acquire(self, uid, name, block=True, timeout=None):
        if self.unwinding:
            self.send(("lock_acquire_unwinding", uid, name, block, timeout))
            return self._wait()[1]
        return self._rpc(("lock_acquire", uid, name, block, timeout))

    def lock_release(self, uid, name):
        self.send(("lock_release", uid, name))
        r = self._wait()
        if r[0] == "error":
            raise ValueError(r[1])
        if r[0] == "interrupt" and not self.unwinding:
            self.unwinding = True
            self.current.interrupted = True
            raise SimInterrupt()

    def block(self, reason):
        self.send(("block_forever", repr(reason)))
        while True:
            self._wait()

    def count(self, key, n=1):
        self.send(("count", key, n))

    def clock(self, which):
        self.send(("clock", which))
        return self._wait()[1]

    def mtime(self, op, base, real=None):
        self.send(("mtime", op, base, real))
        return self._wait()[1]


def die_with_parent():
    try:
        ctypes.CDLL(None).prctl(1, signal.SIGKILL)  # PR_SET_PDEATHSIG
    except Exception:  # noqa: BLE001
        pass


class RemoteClock:
    """SimClock facade inside a forked worker: every reading is answered by the parent's clock."""

    def __init__(self, rs, rng):
        self.rs = rs
        self.rng = rng
        self.jumps = 0

    def perf_counter(self):
        return self.rs.clock("perf_counter")

    def time(self):
        return self.rs.clock("time")

    @property
    def wall(self):
        return self.rs.clock("wall")

    @property
    def covered(self):
        return 0.0
