"""Process plumbing: one run = one freshly forked child of a pristine template process.

driver (template: panoptica imported, seams installed, nothing executed)
  └─ W worker processes (forked from the template, still pristine, single-threaded)
       └─ one child per run (forked from the worker; creates the simulator threads, executes
          the plan, sends the result through a pipe and leaves with os._exit)

Workers never execute panoptica code themselves, so no state can leak from run n to run n+1.
"""

from __future__ import annotations

import faulthandler
import gc
import hashlib
import os
import pickle
import select
import shutil
import signal
import struct
import sys
import time
import traceback

SCRATCH_BASE = "/dev/shm" if os.path.isdir("/dev/shm") and os.access("/dev/shm", os.W_OK) else os.environ.get("TMPDIR", "/tmp")


def run_seed(verif_seed: int, tag: str, index: int) -> int:
    h = hashlib.sha256(f"{verif_seed}:{tag}:{index}".encode()).digest()
    return struct.unpack(">Q", h[:8])[0]


def scratch_dir(tag: str) -> str:
    d = os.path.join(SCRATCH_BASE, f"verif-{os.getpid()}-{tag}")
    os.makedirs(d, exist_ok=True)
    return d


def die_with_parent():
    """No process of the harness outlives the process that forked it (PR_SET_PDEATHSIG)."""
    try:
        import ctypes

        ctypes.CDLL(None).prctl(1, signal.SIGKILL)
    except Exception:  # noqa: BLE001
        pass


def _read_all(fd, deadline):
    chunks = []
    while True:
        left = deadline - time.monotonic()
        if left <= 0:
            return None
        r, _, _ = select.select([fd], [], [], min(left, 5.0))
        if not r:
            continue
        b = os.read(fd, 1 << 16)
        if not b:
            return b"".join(chunks)
        chunks.append(b)


def child_call(fn, args=(), timeout=120.0, root=None):
    """Run fn(*args) in a forked child; returns ("ok", value) | ("error", text)."""
    rfd, wfd = os.pipe()
    sys.stdout.flush()
    sys.stderr.flush()
    pid = os.fork()
    if pid == 0:
        code = 0
        try:
            os.close(rfd)
            die_with_parent()
            gc.disable()
            import warnings

            warnings.simplefilter("ignore")
            signal.signal(signal.SIGINT, signal.SIG_IGN)
            # (faulthandler.dump_traceback_later deadlocks in a child forked from a process
            #  that had armed it; an alarm with the default action is fork-safe)
            signal.signal(signal.SIGALRM, signal.SIG_DFL)
            signal.alarm(max(1, int(timeout)))
            devnull = open(os.devnull, "w")
            sys.stdout = devnull
            try:
                val = ("ok", fn(*args))
            except BaseException as e:  # noqa: BLE001
                val = ("error", f"{type(e).__name__}: {e}\n{traceback.format_exc()[-3000:]}")
            data = pickle.dumps(val, protocol=pickle.HIGHEST_PROTOCOL)
            off = 0
            while off < len(data):
                off += os.write(wfd, data[off:off + (1 << 16)])
        except BaseException:  # noqa: BLE001
            code = 3
        finally:
            os._exit(code)
    os.close(wfd)
    data = _read_all(rfd, time.monotonic() + timeout + 10)
    os.close(rfd)
    if data is None:
        try:
            os.kill(pid, signal.SIGKILL)
        except ProcessLookupError:
            pass
    _, status = os.waitpid(pid, 0)
    if root is not None:
        shutil.rmtree(root, ignore_errors=True)
    if data is None:
        return ("error", "child timed out")
    if not data:
        return ("error", f"child died without a result (wait status {status})")
    try:
        return pickle.loads(data)
    except Exception as e:  # noqa: BLE001
        return ("error", f"undecodable child result: {e}")


def _worker_loop(job_fn, jobs, jr, wfd):
    out = os.fdopen(wfd, "wb")
    while True:
        b = os.read(jr, 4)
        if len(b) < 4:
            break
        j = jobs[struct.unpack(">I", b)[0]]
        try:
            res = job_fn(j)
        except BaseException as e:  # noqa: BLE001
            res = {"harness_error": f"worker: {type(e).__name__}: {e}\n{traceback.format_exc()[-2000:]}"}
        data = pickle.dumps((j, res), protocol=pickle.HIGHEST_PROTOCOL)
        out.write(struct.pack(">I", len(data)))
        out.write(data)
        out.flush()
    out.close()


def parallel_jobs(job_fn, jobs, nworkers=None, wall_cap=None, progress=None):
    """Dynamic distribution of `jobs` over forked workers through a shared pipe of job
    indices (4-byte records; reads and writes are atomic); yields (job, result) as they
    arrive.  Which worker executes a job has no influence on its result.  Raises
    TimeoutError when wall_cap (seconds) is exceeded."""
    jobs = list(jobs)
    if not jobs:
        return
    nworkers = max(1, min(nworkers or (os.cpu_count() or 4), len(jobs)))
    sys.stdout.flush()
    sys.stderr.flush()
    jr, jw = os.pipe()
    workers = []
    for w in range(nworkers):
        rfd, wfd = os.pipe()
        pid = os.fork()
        if pid == 0:
            code = 0
            try:
                die_with_parent()
                os.close(rfd)
                os.close(jw)
                for other_r, _ in workers:
                    try:
                        os.close(other_r)
                    except OSError:
                        pass
                _worker_loop(job_fn, jobs, jr, wfd)
            except BaseException:  # noqa: BLE001
                traceback.print_exc()
                code = 3
            finally:
                os._exit(code)
        os.close(wfd)
        workers.append((rfd, pid))
    os.close(jr)
    os.set_blocking(jw, False)
    start = time.monotonic()
    bufs = {rfd: b"" for rfd, _ in workers}
    open_fds = set(bufs)
    done = 0
    fed = 0
    try:
        while open_fds:
            if wall_cap is not None and time.monotonic() - start > wall_cap:
                raise TimeoutError(f"batch exceeded wall cap of {wall_cap}s after {done}/{len(jobs)} jobs")
            while jw is not None and fed < len(jobs):
                n = min(256, len(jobs) - fed)
                try:
                    os.write(jw, b"".join(struct.pack(">I", i) for i in range(fed, fed + n)))
                    fed += n
                except BlockingIOError:
                    break
            if jw is not None and fed >= len(jobs):
                os.close(jw)
                jw = None
            r, _, _ = select.select(list(open_fds), [], [], 0.5 if jw is not None else 2.0)
            for fd in r:
                b = os.read(fd, 1 << 20)
                if not b:
                    open_fds.discard(fd)
                    continue
                bufs[fd] += b
                while len(bufs[fd]) >= 4:
                    (n,) = struct.unpack(">I", bufs[fd][:4])
                    if len(bufs[fd]) < 4 + n:
                        break
                    payload = bufs[fd][4:4 + n]
                    bufs[fd] = bufs[fd][4 + n:]
                    done += 1
                    if progress:
                        progress(done, len(jobs))
                    yield pickle.loads(payload)
    finally:
        if jw is not None:
            try:
                os.close(jw)
            except OSError:
                pass
        for rfd, pid in workers:
            try:
                os.close(rfd)
            except OSError:
                pass
            if open_fds:
                try:
                    os.kill(pid, signal.SIGKILL)
                except ProcessLookupError:
                    pass
            try:
                os.waitpid(pid, 0)
            except ChildProcessError:
                pass
    if done != len(jobs):
        raise RuntimeError(f"workers delivered {done} of {len(jobs)} results")
