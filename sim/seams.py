"""Simulated replacements for what panoptica reaches through module-level names:
locks, file opens, os.remove / Path.exists / Path.mkdir, atexit, the worker pool, the clocks.

Every replacement performs the *real* operation (real files in a per-run scratch directory,
real pickling, real metric code); what is simulated is when it happens relative to the other
tasks and whether the process group is still alive to do it.
"""

from __future__ import annotations

import io
import os
import pathlib
import pickle
import sys

from .core import HarnessError, Scheduler


class World:
    """Per-process singleton the seams consult.  `sched` is None outside a simulated phase,
    in which case every seam degrades to the plain real operation (used for reference runs)."""

    def __init__(self):
        self.sched: Scheduler | None = None
        self.root: str | None = None  # scratch directory of the run
        self.armed = False  # audit accounting on
        self.seam_counts: dict[str, int] = {}
        self.audit_counts: dict[str, int] = {}
        self.pool_rng = None
        self.pool_workers = 1
        self.pool_mode = "serial"  # serial | sim
        self.pool_points = False
        self.clock = None
        self.default_group = None  # group used when code runs outside any task
        self.stats: dict[str, int] = {}
        self.eval_hook = None
        self.fds: dict[int, str] = {}
        self.mtimes: dict[str, float] = {}
        self.mtime_granularity = 0.0
        self.remote = None  # RemoteSched when this process is a forked worker

    def point(self, kind, detail=""):
        s = self.sched
        if s is not None and s.in_task():
            s.point(kind, detail)

    def seam(self, kind, path):
        if self.armed and self.root and str(path).startswith(self.root):
            self.seam_counts[kind] = self.seam_counts.get(kind, 0) + 1

    def stat(self, key, n=1):
        self.stats[key] = self.stats.get(key, 0) + n

    def set_mtime(self, base):
        """A file's modification time = simulated wall clock at the write, rounded down to the
        file system's timestamp granularity (knob: exact, 1 s, 2 s as on FAT)."""
        if self.remote is not None:
            self.remote.mtime("set", base)
            return
        t = self.clock.time()
        g = self.mtime_granularity
        self.mtimes[base] = (t // g) * g if g else t

    def known_mtime(self, base, real):
        """Simulated modification time of a file.  A file that was last written before this
        process image started (by an earlier session) gets a seeded age: it was modified in the
        current timestamp granule (a restart right after the previous run), seconds or a day ago."""
        if self.remote is not None:
            return self.remote.mtime("get", base, real)
        if self.clock is None:
            return real
        if base not in self.mtimes:
            age = self.clock.rng.choice((0.0, 0.0, 10.0, 86400.0))
            t = self.clock.wall - age
            g = self.mtime_granularity
            self.mtimes[base] = (t // g) * g if g else t
        return self.mtimes[base]

    def proc_tag(self):
        """Tag of the operating-system process in which a lock object is being created."""
        s = self.sched
        if s is not None and getattr(s, "remote_tag", None) is not None:
            return s.remote_tag  # a forked worker process
        if s is not None and s.in_task():
            return ("group", s.current.group.gid)
        return ("import",)

    def current_proc(self):
        """Identity of the simulated operating-system process that is running."""
        s = self.sched
        if s is not None and s.in_task():
            t = s.current
            return (t.group.gid, t.ctx.get("proc", 0))
        return ("outside", 0)

    def current_group(self):
        s = self.sched
        if s is not None and s.in_task():
            return s.current.group
        return self.default_group


WORLD = World()


def _audit(event, args):
    w = WORLD
    if not w.armed or w.root is None:
        return
    if event == "open":
        p = args[0]
        if isinstance(p, (str, bytes, os.PathLike)):
            p = os.fspath(p)
            if isinstance(p, bytes):
                p = p.decode("utf8", "replace")
            if p.startswith(w.root):
                flags = args[2] if len(args) > 2 and isinstance(args[2], int) else 0
                writing = bool(flags & (os.O_WRONLY | os.O_RDWR | os.O_APPEND | os.O_CREAT | os.O_TRUNC))
                k = "open" if writing else "open_read"
                w.audit_counts[k] = w.audit_counts.get(k, 0) + 1
    elif event in ("os.remove", "os.mkdir", "os.rename"):  # os.replace raises os.rename too
        p = args[0]
        try:
            p = os.fspath(p)
        except TypeError:
            return
        if isinstance(p, str) and p.startswith(w.root):
            k = event.split(".")[1]
            w.audit_counts[k] = w.audit_counts.get(k, 0) + 1


_audit_installed = False


def install_audit():
    global _audit_installed
    if not _audit_installed:
        sys.addaudithook(_audit)
        _audit_installed = True


# --------------------------------------------------------------------------- locks
_lock_counter = [0]


class SimLock:
    """multiprocessing.Lock replacement: non-recursive, owner-tracked, and *stateless* - the
    state (owner, waiters) lives in the scheduler, keyed by (process group, lock uid).

    uid = (process that created the object, creation counter).  A lock created at import time or
    in a parent before it forks is inherited by its children and keeps its uid (shared); a lock
    created by a forked child after the fork gets that child's tag: it is private to the child,
    exactly like a semaphore allocated after fork."""

    def __init__(self, name=None):
        _lock_counter[0] += 1
        self.uid = (WORLD.proc_tag(), _lock_counter[0])
        self.name = name or f"lock{_lock_counter[0]}"
        self._outside = None

    def _key(self):
        return self.uid

    def acquire(self, block=True, timeout=None, blocking=None):
        if blocking is not None:
            block = blocking
        s = WORLD.sched
        if s is None or not s.in_task():
            if self._outside is not None:
                raise HarnessError(f"lock {self.name} contended outside simulation")
            self._outside = "outside"
            return True
        return s.lock_acquire(self._key(), self.name, block, timeout)

    def release(self):
        s = WORLD.sched
        if s is None or not s.in_task():
            self._outside = None
            return
        s.lock_release(self._key(), self.name)

    def locked(self):
        return False

    def __enter__(self):
        self.acquire()
        return True

    def __exit__(self, *a):
        self.release()
        return False

    def __reduce__(self):
        raise RuntimeError("Lock objects should only be shared between processes through inheritance")


def sim_lock_factory(*a, **k):
    return SimLock()


class SimThreadLock(SimLock):
    """threading.Lock created by the code under test: shared by the threads of one process,
    *copied* (independent) in forked children - its state is keyed by the process that uses it."""

    def _key(self):
        return ("thread", self.uid, WORLD.current_proc())

    def __reduce__(self):
        raise TypeError("cannot pickle '_thread.lock' object")


class SimThreadRLock(SimThreadLock):
    def __init__(self, name=None):
        super().__init__(name)
        self._owners = {}

    def acquire(self, block=True, timeout=None, blocking=None):
        me = (WORLD.current_proc(), getattr(getattr(WORLD.sched, "current", None), "tid", None))
        st = self._owners.get(me[0])
        if st is not None and st[0] == me[1]:
            st[1] += 1
            return True
        ok = super().acquire(block, timeout, blocking)
        if ok:
            self._owners[me[0]] = [me[1], 1]
        return ok

    def release(self):
        p = WORLD.current_proc()
        st = self._owners.get(p)
        if st is None:
            raise RuntimeError("cannot release un-acquired lock")
        st[1] -= 1
        if st[1] == 0:
            del self._owners[p]
            super().release()


def install_threading_seam(package="panoptica"):
    """threading.Lock / threading.RLock dispatch on the module that calls them: code of the
    package under test gets simulated locks (blocking on them is a scheduler matter, never a real
    wait), everything else - the standard library, numpy, this harness - gets the real thing."""
    import _thread
    import threading

    real_lock, real_rlock = _thread.allocate_lock, threading.RLock

    def _caller():
        return sys._getframe(2).f_globals.get("__name__", "")

    def Lock(*a, **k):
        n = _caller()
        if n == package or n.startswith(package + "."):
            return SimThreadLock()
        return real_lock(*a, **k)

    def RLock(*a, **k):
        n = _caller()
        if n == package or n.startswith(package + "."):
            return SimThreadRLock()
        return real_rlock(*a, **k)

    if getattr(threading.Lock, "__verif__", False):
        return
    Lock.__verif__ = True
    threading.Lock = Lock
    threading.RLock = RLock


# --------------------------------------------------------------------------- files
def _base(path) -> str:
    return os.path.basename(os.fspath(path))


class SimFileIO(io.FileIO):
    """io.FileIO whose system calls are scheduling (and therefore crash) points."""

    def __init__(self, path, mode="r"):
        self._sim_base = _base(path)
        WORLD.point("openat", f"{self._sim_base}:{mode}")
        WORLD.seam("open" if set(mode) & set("wax+") else "open_read", path)
        super().__init__(path, mode)

    def write(self, b):
        WORLD.point("write", f"{self._sim_base}:{len(b)}")
        WORLD.stat("write_calls")
        if WORLD.clock is not None:
            WORLD.set_mtime(self._sim_base)
        n = super().write(b)
        if n != len(b):
            raise HarnessError("short write on scratch file system")
        return n

    def readinto(self, b):
        WORLD.point("read", self._sim_base)
        return super().readinto(b)

    def readall(self):
        WORLD.point("read", self._sim_base)
        return super().readall()

    def read(self, size=-1):
        WORLD.point("read", self._sim_base)
        return super().read(size)

    def close(self):
        if self.closed:
            return
        WORLD.point("close", self._sim_base)
        super().close()


def sim_open(file, mode="r", buffering=-1, encoding=None, errors=None, newline=None, closefd=True, opener=None):
    """builtins.open rebuilt over SimFileIO: same buffering / text layers as the real one."""
    if not isinstance(file, (str, bytes, os.PathLike)):
        raise HarnessError(f"sim_open: unsupported file argument {file!r}")
    if opener is not None or not closefd:
        raise HarnessError("sim_open: opener/closefd not supported")
    modes = set(mode)
    if modes - set("axrwb+tU") or len(mode) > len(modes):
        raise ValueError("invalid mode: %r" % mode)
    creating, reading, writing, appending = "x" in modes, "r" in modes, "w" in modes, "a" in modes
    updating, text, binary = "+" in modes, "t" in modes, "b" in modes
    if text and binary:
        raise ValueError("can't have text and binary mode at once")
    if creating + reading + writing + appending != 1:
        raise ValueError("must have exactly one of create/read/write/append mode")
    if binary and (encoding is not None or errors is not None or newline is not None):
        raise ValueError("binary mode doesn't take encoding/errors/newline arguments")
    rawmode = ("x" if creating else "") + ("r" if reading else "") + ("w" if writing else "") + ("a" if appending else "") + ("+" if updating else "")
    raw = SimFileIO(os.fspath(file), rawmode)
    result = raw
    try:
        line_buffering = False
        if buffering == 1 or (buffering < 0 and raw.isatty()):
            buffering = -1
            line_buffering = True
        if buffering < 0:
            buffering = getattr(raw, "_blksize", 0)
            if buffering <= 1:
                buffering = io.DEFAULT_BUFFER_SIZE
        if buffering == 0:
            if binary:
                return result
            raise ValueError("can't have unbuffered text I/O")
        if updating:
            buffer = io.BufferedRandom(raw, buffering)
        elif creating or writing or appending:
            buffer = io.BufferedWriter(raw, buffering)
        else:
            buffer = io.BufferedReader(raw, buffering)
        result = buffer
        if binary:
            return result
        encoding = io.text_encoding(encoding)
        t = io.TextIOWrapper(buffer, encoding, errors, newline, line_buffering)
        result = t
        t.mode = mode
        return result
    except BaseException:
        result.close()
        raise


class SimPath(pathlib.PosixPath):
    def exists(self, **k):
        WORLD.point("stat", _base(self))
        return super().exists(**k)

    def mkdir(self, *a, **k):
        WORLD.point("mkdir", _base(self))
        WORLD.seam("mkdir", self)
        return super().mkdir(*a, **k)

    def is_file(self, **k):
        WORLD.point("stat", _base(self))
        return super().is_file(**k)

    def unlink(self, missing_ok=False):
        WORLD.point("unlink", _base(self))
        WORLD.seam("remove", self)
        return super().unlink(missing_ok=missing_ok)

    def rename(self, target):
        WORLD.point("rename", f"{_base(self)}->{_base(target)}")
        WORLD.seam("rename", self)
        return super().rename(target)

    def replace(self, target):
        WORLD.point("replace", f"{_base(self)}->{_base(target)}")
        WORLD.seam("rename", self)
        return super().replace(target)

    def open(self, mode="r", buffering=-1, encoding=None, errors=None, newline=None):
        return sim_open(self, mode, buffering, encoding, errors, newline)

    def touch(self, mode=0o666, exist_ok=True):
        f = sim_open(self, "a")
        f.close()


class OsProxy:
    def __getattr__(self, name):
        return getattr(os, name)

    def remove(self, path, *a, **k):
        WORLD.point("unlink", _base(path))
        WORLD.seam("remove", path)
        return os.remove(path, *a, **k)

    unlink = remove

    def _two(self, name, src, dst, *a, **k):
        WORLD.point(name, f"{_base(src)}->{_base(dst)}")
        WORLD.seam("rename", src)
        return getattr(os, name)(src, dst, *a, **k)

    def rename(self, src, dst, *a, **k):
        return self._two("rename", src, dst, *a, **k)

    def replace(self, src, dst, *a, **k):
        return self._two("replace", src, dst, *a, **k)

    def mkdir(self, path, *a, **k):
        WORLD.point("mkdir", _base(path))
        WORLD.seam("mkdir", path)
        return os.mkdir(path, *a, **k)

    def makedirs(self, path, *a, **k):
        WORLD.point("mkdir", _base(path))
        armed = WORLD.armed
        WORLD.armed = False  # makedirs issues a variable number of mkdir calls
        try:
            return os.makedirs(path, *a, **k)
        finally:
            WORLD.armed = armed

    def truncate(self, path, length):
        WORLD.point("truncate", _base(path))
        return os.truncate(path, length)

    # low-level descriptor I/O (os.open / os.write / ...): same scheduling and crash points
    def open(self, path, flags, mode=0o777, *a, **k):
        WORLD.point("openat", f"{_base(path)}:fd")
        WORLD.seam("open" if flags & (os.O_WRONLY | os.O_RDWR | os.O_APPEND | os.O_CREAT | os.O_TRUNC) else "open_read", path)
        fd = os.open(path, flags, mode, *a, **k)
        WORLD.fds[fd] = _base(path)
        return fd

    def write(self, fd, data):
        if fd in WORLD.fds:
            WORLD.point("write", f"{WORLD.fds[fd]}:{len(data)}")
            WORLD.stat("write_calls")
            if WORLD.clock is not None:
                WORLD.set_mtime(WORLD.fds[fd])
        return os.write(fd, data)

    def read(self, fd, n):
        if fd in WORLD.fds:
            WORLD.point("read", WORLD.fds[fd])
        return os.read(fd, n)

    def fsync(self, fd):
        if fd in WORLD.fds:
            WORLD.point("fsync", WORLD.fds[fd])
        return os.fsync(fd)

    def close(self, fd):
        if fd in WORLD.fds:
            WORLD.point("close", WORLD.fds.pop(fd))
        return os.close(fd)

    def stat(self, path, *a, **k):
        WORLD.point("stat", _base(path))
        return _SimStat(os.stat(path, *a, **k), _base(path))

    @property
    def path(self):
        return _OS_PATH


class _SimStat:
    """os.stat_result whose modification time is the simulated one (see OsPathProxy)."""

    def __init__(self, real, base):
        self._real = real
        self._base = base

    def __getattr__(self, name):
        if name in ("st_mtime", "st_ctime"):
            return WORLD.known_mtime(self._base, getattr(self._real, name))
        if name in ("st_mtime_ns", "st_ctime_ns"):
            return int(WORLD.known_mtime(self._base, getattr(self._real, name[:-3])) * 1e9)
        return getattr(self._real, name)

    def __getitem__(self, i):
        return self._real[i]


class OsPathProxy:
    """os.path with simulated file times: a file's modification time is the simulated wall clock
    at its last write through a seam, so equal or backward-going timestamps occur (coarse
    file-system granularity, stepped clocks)."""

    def __getattr__(self, name):
        return getattr(os.path, name)

    def exists(self, p):
        WORLD.point("stat", _base(p))
        return os.path.exists(p)

    def isfile(self, p):
        WORLD.point("stat", _base(p))
        return os.path.isfile(p)

    def getsize(self, p):
        WORLD.point("stat", _base(p))
        return os.path.getsize(p)

    def getmtime(self, p):
        WORLD.point("stat", _base(p))
        real = os.path.getmtime(p)
        return WORLD.known_mtime(_base(p), real)

    getctime = getmtime


_OS_PATH = OsPathProxy()


class AtexitProxy:
    """Per-simulated-process-group handler list (run on graceful exit, dropped on kill)."""

    def register(self, fn, *a, **k):
        g = WORLD.current_group()
        if g is None:
            raise HarnessError("atexit.register without a process group")
        g.atexit.append((fn, a, k))
        return fn

    def unregister(self, fn):
        g = WORLD.current_group()
        if g is not None:
            g.atexit = [h for h in g.atexit if h[0] != fn]


def run_atexit(group):
    """What the interpreter does at exit: handlers in reverse registration order; an exception
    in one handler is printed and does not stop the others."""
    errors = []
    while group.atexit:
        fn, a, k = group.atexit.pop()
        try:
            fn(*a, **k)
        except Exception as e:  # noqa: BLE001
            errors.append((type(e).__name__, str(e)[:300]))
    # weakref.finalize objects created with atexit=True also run at interpreter exit
    import weakref

    try:
        weakref.finalize._exitfunc()
    except Exception as e:  # noqa: BLE001
        errors.append((type(e).__name__, str(e)[:300]))
    return errors


# --------------------------------------------------------------------------- clocks
class SimClock:
    """perf_counter / time.time replacement: advances by a seeded increment at every read."""

    def __init__(self, rng):
        self.rng = rng
        self.mono = 1000.0
        self.wall = 1.7e9
        self.reads = 0
        self.jumps = 0
        self.jump_prob = 0.0
        self.ticks = (0.0, 1e-6, 1e-3, 0.25, 3.0)

    def _tick(self):
        d = self.rng.choice(self.ticks)
        self.mono += d
        self.wall += d
        self.reads += 1
        return d

    def perf_counter(self):
        self._tick()
        return self.mono

    def time(self):
        self._tick()
        if self.jump_prob and self.rng.random() < self.jump_prob:
            self.wall += self.rng.choice((-3600.0, -1.0, 86400.0))
            self.jumps += 1
        return self.wall

    @property
    def covered(self):
        return self.mono - 1000.0


class _RealClock:
    def perf_counter(self):
        import time

        return time.perf_counter()

    def time(self):
        import time

        return time.time()


_REAL_CLOCK = _RealClock()


def sim_perf_counter():
    c = WORLD.clock or _REAL_CLOCK
    return c.perf_counter()


class TimeProxy:
    def __getattr__(self, name):
        import time

        return getattr(time, name)

    def time(self):
        c = WORLD.clock or _REAL_CLOCK
        return c.time()

    def perf_counter(self):
        return sim_perf_counter()


# --------------------------------------------------------------------------- worker pool
class _AsyncResult:
    def __init__(self, thunk):
        self._thunk = thunk
        self._done = False
        self._val = None
        self._exc = None

    def _force(self):
        if not self._done:
            try:
                self._val = self._thunk()
            except Exception as e:  # noqa: BLE001
                self._exc = e
            self._done = True

    def get(self, timeout=None):
        self._force()
        if self._exc is not None:
            raise self._exc
        return self._val

    def wait(self, timeout=None):
        self._force()

    def ready(self):
        return True

    def successful(self):
        self._force()
        return self._exc is None


class SimPool:
    """multiprocessing.pool.Pool under an adversarial but legal schedule.

    serial mode: plain list comprehension in the caller (what the code does without a pool).
    sim mode   : stdlib chunking, every task's (function, arguments) and result cross a real
                 pickle round trip, chunks complete in a seeded permutation, ordered APIs place
                 results by index, unordered APIs yield in completion order.
    """

    def __init__(self, processes=None, initializer=None, initargs=(), maxtasksperchild=None, context=None):
        self._workers = processes or WORLD.pool_workers
        self._closed = False
        self._creator = WORLD.current_proc()
        WORLD.stat("pool_created")

    # context manager / lifecycle
    def __enter__(self):
        return self

    def __exit__(self, *a):
        self.terminate()

    def close(self):
        self._closed = True

    def terminate(self):
        self._closed = True

    def join(self):
        pass

    # core
    def _run(self, func, items, star, chunksize=None):
        """Returns list of (index, result) in completion order."""
        w = WORLD
        if self._closed:
            raise ValueError("Pool not running")
        if w.current_proc() != self._creator:
            # a pool inherited through fork: the child's copy is in state RUN but its handler
            # threads did not survive the fork, so a submitted batch is never picked up and
            # .get() waits forever
            w.stat("pool_used_across_fork")
            s = w.sched
            if s is None or not s.in_task():
                raise HarnessError("pool used across processes outside the simulation")
            while True:
                s.block(("inherited_pool", id(self)))
        items = list(items)
        n = len(items)
        if w.pool_mode == "serial" or w.pool_rng is None:
            out = []
            for i, a in enumerate(items):
                if w.pool_points:
                    w.point("pool.task", str(i))
                out.append((i, func(*a) if star else func(a)))
            w.stat("pool_serial_tasks", n)
            return out
        if n == 0:
            return []
        if chunksize is None:
            chunksize, extra = divmod(n, self._workers * 4)
            if extra:
                chunksize += 1
        chunks = [list(range(i, min(i + chunksize, n))) for i in range(0, n, chunksize)]
        order = list(range(len(chunks)))
        w.pool_rng.shuffle(order)
        if order != sorted(order):
            w.stat("pool_out_of_order")
        w.stat("pool_sim_tasks", n)
        out = []
        first_exc = None
        for ci in order:
            for i in chunks[ci]:
                if w.pool_points:
                    w.point("pool.task", str(i))
                f2, a2 = pickle.loads(pickle.dumps((func, items[i]), protocol=pickle.HIGHEST_PROTOCOL))
                try:
                    r = f2(*a2) if star else f2(a2)
                    r = pickle.loads(pickle.dumps(r, protocol=pickle.HIGHEST_PROTOCOL))
                except Exception as e:  # noqa: BLE001
                    if first_exc is None:
                        first_exc = e
                    continue
                out.append((i, r))
        if first_exc is not None:
            raise first_exc
        return out

    def _ordered(self, pairs):
        return [r for _, r in sorted(pairs, key=lambda p: p[0])]

    def map(self, func, iterable, chunksize=None):
        return self._ordered(self._run(func, iterable, False, chunksize))

    def starmap(self, func, iterable, chunksize=None):
        return self._ordered(self._run(func, iterable, True, chunksize))

    def imap(self, func, iterable, chunksize=1):
        return iter(self._ordered(self._run(func, iterable, False, chunksize)))

    def imap_unordered(self, func, iterable, chunksize=1):
        return iter([r for _, r in self._run(func, iterable, False, chunksize)])

    def apply(self, func, args=(), kwds={}):
        return self.apply_async(func, args, kwds).get()

    def apply_async(self, func, args=(), kwds={}, callback=None, error_callback=None):
        def thunk():
            if WORLD.pool_mode == "serial" or WORLD.pool_rng is None:
                return func(*args, **kwds)
            f2, a2, k2 = pickle.loads(pickle.dumps((func, args, kwds)))
            return pickle.loads(pickle.dumps(f2(*a2, **k2)))

        return _AsyncResult(thunk)

    def map_async(self, func, iterable, chunksize=None, callback=None, error_callback=None):
        return _AsyncResult(lambda: self.map(func, iterable, chunksize))

    def starmap_async(self, func, iterable, chunksize=None, callback=None, error_callback=None):
        return _AsyncResult(lambda: self.starmap(func, iterable, chunksize))
