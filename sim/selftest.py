"""Self-tests of the machinery itself.

selftest-determinism : every engine, N run seeds, executed twice in separate interpreters under
                       different PYTHONHASHSEEDs and worker counts; all digests must agree.
selftest-mutants     : each seeded defect of mutants/mutants.py is applied to a scratch copy of
                       /repo; the named checks must exit 1 with a replay that reproduces; the
                       baseline test suite must still pass on the mutant (--with-tests).
Results are written to evidence/selftest-*.json (not property evidence)."""

from __future__ import annotations

import json
import os
import re
import shutil
import subprocess
import sys
import time

VERIF = os.path.dirname(os.path.dirname(os.path.abspath(__file__)))
PROPS = ["C15", "C16", "C17", "C18", "C20"]


def log(*a):
    print(*a, flush=True)


def _digests(prop, idxs, seed, hashseed, workers):
    rc = subprocess.run([sys.executable, os.path.join(VERIF, "check"), prop, "--seed", str(seed), "--digests", ",".join(map(str, idxs)), "--workers", str(workers)],
                        capture_output=True, text=True, env={**os.environ, "PYTHONHASHSEED": str(hashseed)}, timeout=7200)
    m = re.search(r"^DIGESTS (.*)$", rc.stdout, re.M)
    if rc.returncode != 0 or not m:
        raise RuntimeError(f"digest run failed rc={rc.returncode}: {rc.stdout[-400:]} {rc.stderr[-400:]}")
    return json.loads(m.group(1))


def determinism(args):
    n = args.runs or 2000
    t0 = time.time()
    out = {}
    bad = 0
    for prop in PROPS:
        idxs = list(range(n))
        a = _digests(prop, idxs, args.seed, 0, 16)
        b = _digests(prop, idxs, args.seed, 4242, 3)
        diff = [i for i in idxs if a.get(str(i)) != b.get(str(i))]
        errs = [i for i in idxs if a.get(str(i), [None] * 4)[3]]
        out[prop] = {"runs": n, "differing": len(diff), "first": diff[:3], "harness_errors": len(errs), "distinct_digests": len({json.dumps(v) for v in a.values()})}
        log(f"determinism {prop}: {n} seeds x 2 interpreters (hash seeds 0/4242, 16/3 workers): {len(diff)} differ, {len(errs)} harness errors, {out[prop]['distinct_digests']} distinct")
        bad += len(diff) + len(errs)
    os.makedirs(os.path.join(VERIF, "evidence"), exist_ok=True)
    with open(os.path.join(VERIF, "evidence", "selftest-determinism.json"), "w") as f:
        json.dump({"seed": args.seed, "wall_s": round(time.time() - t0, 1), "per_property": out}, f, indent=1)
    return 2 if bad else 0


def apply_mutant(copy, mutant):
    for path, old, new in mutant["edits"]:
        p = os.path.join(copy, path)
        s = open(p, encoding="utf8").read()
        if s.count(old) != 1:
            raise RuntimeError(f"mutant {mutant['name']}: anchor text found {s.count(old)}x in {path}")
        open(p, "w", encoding="utf8").write(s.replace(old, new))


def mutants(args):
    sys.path.insert(0, VERIF)
    from mutants.mutants import MUTANTS

    repo = os.environ.get("VERIF_REPO", "/repo")
    base = f"/dev/shm/verif-mut-{os.getpid()}" if os.path.isdir("/dev/shm") else f"/tmp/verif-mut-{os.getpid()}"
    only = set(args.only.split(",")) if getattr(args, "only", None) else None
    t0 = time.time()
    results = []
    missed = 0
    try:
        for m in MUTANTS:
            if only and m["name"] not in only:
                continue
            copy = os.path.join(base, m["name"], "repo")
            rdir = os.path.join(base, m["name"], "replays")
            os.makedirs(rdir, exist_ok=True)
            subprocess.run(["rsync", "-a", "--exclude", ".git", "--exclude", "__pycache__", repo + "/", copy + "/"], check=True)
            entry = {"name": m["name"], "needs": m["needs"], "checks": {}}
            try:
                apply_mutant(copy, m)
            except RuntimeError as e:
                entry["error"] = str(e)
                results.append(entry)
                missed += 1
                log(f"mutant {m['name']}: CANNOT APPLY: {e}")
                continue
            if args.with_tests:
                rc = subprocess.run([sys.executable, "-m", "pytest", "-q", "-p", "no:cacheprovider", "--timeout=900", "unit_tests"], cwd=copy, capture_output=True, text=True,
                                    env={**os.environ, "PYTHONPATH": copy, "PANOPTICA_CITATION_REMINDER": "false"}, timeout=1800)
                mt = re.search(r"(\d+) passed", rc.stdout)
                entry["baseline_passed"] = int(mt.group(1)) if mt else 0
            for prop in m["props"]:
                t1 = time.time()
                cmd = [os.path.join(VERIF, "check"), prop, "--tier", "quick", "--no-evidence", "--no-detcheck", "--seed", str(args.seed)]
                rc = subprocess.run(cmd, capture_output=True, text=True, env={**os.environ, "VERIF_REPO": copy, "VERIF_REPLAY_DIR": rdir}, timeout=3600)
                vio = re.findall(r"^VIOLATION property=(\S+) replay=(\S+)$", rc.stdout, re.M)
                cl = re.findall(r"^violation of clause (\S+) \((\d+) runs\)", rc.stdout, re.M)
                entry["checks"][prop] = {"exit": rc.returncode, "violations": len(vio), "clauses": {c: int(n) for c, n in cl}, "wall_s": round(time.time() - t1, 1)}
                ok = rc.returncode == 1 and vio
                if ok and not cl:
                    # caught by a stored regression replay before the search started: judge the search alone too
                    rc2 = subprocess.run(cmd + ["--no-regression"], capture_output=True, text=True, env={**os.environ, "VERIF_REPO": copy, "VERIF_REPLAY_DIR": rdir}, timeout=3600)
                    cl2 = re.findall(r"^violation of clause (\S+) \((\d+) runs\)", rc2.stdout, re.M)
                    entry["checks"][prop]["caught_by_regression_replay"] = True
                    entry["checks"][prop]["search_alone"] = {"exit": rc2.returncode, "clauses": {c: int(n) for c, n in cl2}}
                if not ok:
                    missed += 1
                    entry["checks"][prop]["tail"] = (rc.stdout[-600:] + rc.stderr[-300:])
                log(f"mutant {m['name']} / {prop}: exit {rc.returncode} {'CAUGHT ' + json.dumps(entry['checks'][prop]['clauses']) if ok else 'MISSED'} ({time.time() - t1:.0f}s)")
            results.append(entry)
            shutil.rmtree(os.path.join(base, m["name"]), ignore_errors=True)
    finally:
        shutil.rmtree(base, ignore_errors=True)
    with open(os.path.join(VERIF, "evidence", "selftest-mutants.json"), "w") as f:
        json.dump({"seed": args.seed, "wall_s": round(time.time() - t0, 1), "mutants": len(results), "missed": missed, "results": results}, f, indent=1)
    log(f"selftest-mutants: {len(results)} mutants, {missed} missed, {time.time() - t0:.0f}s")
    return 2 if missed else 0


def _real_pool_eval(spec, inp):
    """Own image: the evaluation with the *real* multiprocessing.Pool (real worker processes)."""
    import sys as _sys

    from . import histsim, model
    from .install import MODS

    histsim._silence()
    import multiprocessing
    import multiprocessing.context

    # real worker processes need the real synchronisation primitives again
    multiprocessing.Lock = MODS["real_mp_lock"]
    multiprocessing.context.BaseContext.Lock = MODS["real_ctx_lock"]
    multiprocessing.Pool = MODS["real_pool"]
    multiprocessing.context.BaseContext.Pool = MODS["real_ctx_pool"]
    for name, mod in list(_sys.modules.items()):
        if mod is not None and (name == "panoptica" or name.startswith("panoptica.")):
            for attr, val in list(vars(mod).items()):
                if val is __import__("sim.seams", fromlist=["SimPool"]).SimPool:
                    setattr(mod, attr, MODS["real_pool"])
    ev = model.build_evaluator(spec)
    pred, ref = model.build_arrays(inp)
    try:
        res = ev.evaluate(pred, ref)
    except Exception as e:  # noqa: BLE001
        return {"invalid": f"{type(e).__name__}: {str(e)[:200]}"}
    import panoptica._functionals as _fn

    if _fn.Pool is not MODS["real_pool"]:
        raise RuntimeError("real Pool was not put back")
    return {"result": histsim.result_canon(res)}


def poolfidelity(args):
    """Assumption check on the worker-pool stub: the same evaluations with real worker processes,
    with SimPool (seeded completion order, pickle boundary) and serially must agree bit for bit.
    Real processes are not under the scheduler's control, so a mismatch is a harness error."""
    import random

    from . import gen, histsim, install, runner
    from .seams import WORLD

    install.install()
    n = args.runs or 40
    t0 = time.time()
    base = runner.scratch_dir("poolfid")
    bad, done, invalid = [], 0, 0

    def sim_eval(spec, inp, seed):
        histsim._silence()
        WORLD.pool_mode = "sim"
        WORLD.pool_rng = random.Random(seed)
        WORLD.pool_workers = 3
        from . import model

        ev = model.build_evaluator(spec)
        pred, ref = model.build_arrays(inp)
        return {"result": histsim.result_canon(ev.evaluate(pred, ref))}

    for i in range(n):
        rng = random.Random(runner.run_seed(args.seed, "poolfid", i))
        spec = gen.gen_spec(rng, plain_groups=True, max_groups=2, cheap=True, allow_times=False)
        inp = gen.gen_input(rng, spec, max_side=8, max_inst=4)
        st, serial = runner.child_call(histsim.ref_eval, (spec, inp), timeout=120)
        if st != "ok" or "invalid" in serial:
            invalid += 1
            continue
        st2, real = runner.child_call(_real_pool_eval, (spec, inp), timeout=300)
        st3, sim = runner.child_call(sim_eval, (spec, inp, i), timeout=120)
        done += 1
        if st2 != "ok" or st3 != "ok" or real != serial or sim != serial:
            bad.append({"case": i, "real_ok": st2 == "ok" and real == serial, "sim_ok": st3 == "ok" and sim == serial, "detail": str(real)[:200] if st2 != "ok" else ""})
        if (i + 1) % 10 == 0:
            log(f"  pool fidelity: {i + 1}/{n} cases, {len(bad)} mismatches")
    shutil.rmtree(base, ignore_errors=True)
    with open(os.path.join(VERIF, "evidence", "selftest-poolfidelity.json"), "w") as f:
        json.dump({"seed": args.seed, "cases": done, "invalid_generated": invalid, "mismatches": bad, "wall_s": round(time.time() - t0, 1)}, f, indent=1)
    log(f"selftest-poolfidelity: {done} cases with real worker processes vs SimPool vs serial, {len(bad)} mismatches, {time.time() - t0:.0f}s")
    return 2 if bad else 0


def _scratch_copy(repo, dst, patch):
    subprocess.run(["rsync", "-a", "--exclude", ".git", "--exclude", "__pycache__", repo + "/", dst + "/"], check=True)
    r = subprocess.run(["patch", "-p1", "-s", "-i", patch], cwd=dst, capture_output=True, text=True)
    return r.returncode == 0, (r.stdout + r.stderr)[-300:]


def seeded(args):
    """Every change kept under seeded/<id>/ (written by independent sub-agents) is applied to a
    scratch copy of /repo and the checks named in its meta.json are run against it: the property
    it breaks must be reported (exit 1), unless meta.json documents the change as not caught."""
    repo = os.environ.get("VERIF_REPO", "/repo")
    base = f"/dev/shm/verif-seeded-{os.getpid()}"
    only = set(args.only.split(",")) if getattr(args, "only", None) else None
    t0 = time.time()
    results, bad = [], 0
    try:
        for sid in sorted(os.listdir(os.path.join(VERIF, "seeded"))):
            d = os.path.join(VERIF, "seeded", sid)
            if not os.path.exists(os.path.join(d, "meta.json")) or (only and sid not in only):
                continue
            meta = json.load(open(os.path.join(d, "meta.json")))
            prop = meta.get("breaks")
            expect_caught = "MISSED: no plan" not in meta.get("detection", "") and not meta.get("detection", "").startswith("MISSED")
            extra = []
            for k in meta.get("check_results", {}):
                m = re.match(r"^(C\d+) --runs (\d+)$", k)
                if m and m.group(1) == prop:
                    extra = ["--runs", m.group(2)]
            copy = os.path.join(base, sid, "repo")
            os.makedirs(copy, exist_ok=True)
            ok, msg = _scratch_copy(repo, copy, os.path.join(d, "patch.diff"))
            if not ok:
                results.append({"id": sid, "error": "patch does not apply: " + msg})
                bad += 1
                log(f"seeded {sid}: PATCH DOES NOT APPLY")
                continue
            t1 = time.time()
            cmd = [os.path.join(VERIF, "check"), prop, "--tier", "quick", "--no-evidence", "--no-detcheck", "--seed", str(args.seed)] + extra
            rc = subprocess.run(cmd, capture_output=True, text=True, env={**os.environ, "VERIF_REPO": copy, "VERIF_REPLAY_DIR": os.path.join(base, sid, "replays")}, timeout=7200)
            cl = dict(re.findall(r"^violation of clause (\S+) \((\d+) runs\)", rc.stdout, re.M))
            caught = rc.returncode == 1
            good = caught == expect_caught and rc.returncode in (0, 1)
            if not good:
                bad += 1
            results.append({"id": sid, "property": prop, "exit": rc.returncode, "clauses": cl, "expected_caught": expect_caught, "as_expected": good, "wall_s": round(time.time() - t1, 1)})
            log(f"seeded {sid} / {prop}: exit {rc.returncode} {json.dumps(cl)} {'as documented' if good else 'NOT AS DOCUMENTED'} ({time.time() - t1:.0f}s)")
            shutil.rmtree(os.path.join(base, sid), ignore_errors=True)
    finally:
        shutil.rmtree(base, ignore_errors=True)
    path = os.path.join(VERIF, "evidence", "selftest-seeded.json")
    if only and os.path.exists(path):
        # a partial re-run (--only) updates the entries it ran and keeps the others
        old = json.load(open(path))
        merged = {r["id"]: r for r in old.get("results", [])}
        merged.update({r["id"]: r for r in results})
        results = [merged[k] for k in sorted(merged)]
        bad = sum(1 for r in results if not r.get("as_expected", False))
    with open(path, "w") as f:
        json.dump({"seed": args.seed, "wall_s": round(time.time() - t0, 1), "changes": len(results), "not_as_documented": bad, "results": results}, f, indent=1)
    log(f"selftest-seeded: {len(results)} changes, {bad} not as documented, {time.time() - t0:.0f}s")
    return 2 if bad else 0


def refactorings(args):
    """Every behaviour-preserving refactoring kept under seeded_refactorings/<id>/ is applied to a
    scratch copy and all five checks are run against it: none may report a violation."""
    repo = os.environ.get("VERIF_REPO", "/repo")
    base = f"/dev/shm/verif-refac-{os.getpid()}"
    only = set(args.only.split(",")) if getattr(args, "only", None) else None
    t0 = time.time()
    results, alarms, errors = [], 0, 0
    try:
        for rid in sorted(os.listdir(os.path.join(VERIF, "seeded_refactorings"))):
            d = os.path.join(VERIF, "seeded_refactorings", rid)
            if not os.path.exists(os.path.join(d, "patch.diff")) or (only and rid not in only):
                continue
            copy = os.path.join(base, rid, "repo")
            os.makedirs(copy, exist_ok=True)
            ok, msg = _scratch_copy(repo, copy, os.path.join(d, "patch.diff"))
            if not ok:
                results.append({"id": rid, "error": "patch does not apply: " + msg})
                errors += 1
                continue
            codes = {}
            for prop in PROPS:
                rc = subprocess.run([os.path.join(VERIF, "check"), prop, "--tier", "quick", "--no-evidence", "--no-detcheck", "--seed", str(args.seed)], capture_output=True, text=True,
                                    env={**os.environ, "VERIF_REPO": copy, "VERIF_REPLAY_DIR": os.path.join(base, rid, "replays")}, timeout=7200)
                codes[prop] = rc.returncode
                alarms += rc.returncode == 1
                errors += rc.returncode not in (0, 1)
            results.append({"id": rid, "exit_codes": codes})
            log(f"refactoring {rid}: {codes}")
            shutil.rmtree(os.path.join(base, rid), ignore_errors=True)
    finally:
        shutil.rmtree(base, ignore_errors=True)
    with open(os.path.join(VERIF, "evidence", "selftest-refactorings.json"), "w") as f:
        json.dump({"seed": args.seed, "wall_s": round(time.time() - t0, 1), "refactorings": len(results), "false_alarms": alarms, "harness_errors": errors, "results": results}, f, indent=1)
    log(f"selftest-refactorings: {len(results)} refactorings x {len(PROPS)} checks, {alarms} false alarms, {errors} harness errors, {time.time() - t0:.0f}s")
    return 2 if (alarms or errors) else 0


def main(args):
    if args.prop == "selftest-seeded":
        return seeded(args)
    if args.prop == "selftest-refactorings":
        return refactorings(args)
    if args.prop == "selftest-poolfidelity":
        return poolfidelity(args)
    if args.prop == "selftest-determinism":
        return determinism(args)
    if args.prop == "selftest-mutants":
        return mutants(args)
    log("unknown selftest")
    return 2
