"""Delta-debugging over aggsim plans: every candidate is executed in a fresh child process and
accepted only if the same oracle clause still fails."""

from __future__ import annotations

import copy

SIMPLE_SPEC = {"input": "MATCHED_INSTANCE", "approx": None, "matcher": None, "groups": None, "inst_metrics": ["DSC"],
               "glob_metrics": [], "decision": None, "ech": None, "save_group_times": False, "log_times": False, "verbose": False}
SIMPLE_INPUT = {"shape": [3, 3], "dtype": "uint8", "pred": [0, 0, 0, 0, 1, 0, 0, 0, 0], "ref": [0, 0, 0, 0, 1, 1, 0, 0, 0], "order": "C"}


def materialize(plan: dict, res: dict) -> dict:
    """Make every choice of the run explicit: the schedule actually taken and the fault steps
    that actually fired (hazard-driven faults become fixed steps; faults that never fired turn
    the session into a graceful one)."""
    p = copy.deepcopy(plan)
    if "schedule" in res:
        p["schedule"] = list(res["schedule"])
    fired = {(f[0], f[2]): f for f in res.get("faults_fired", [])}  # (phase, group) -> record
    for pi, ph in enumerate(p.get("phases", [])):
        for sess in ph["sessions"]:
            if sess.get("end") in ("kill", "interrupt"):
                f = fired.get((pi, sess["group"]))
                if f is None:
                    sess["end"] = "graceful"
                    sess.pop("fault_step", None)
                else:
                    sess["end"] = f[1]
                    sess["fault_step"] = f[3]
            sess.pop("fault_frac", None)
            sess.pop("hazard_p", None)
    return p


def _candidates(plan):
    """Yield (description, candidate plan); simplest-first within each family."""
    P = copy.deepcopy
    phases = plan.get("phases", [])
    sch = plan.get("schedule")
    if sch and isinstance(sch[0], list) and any(sch):
        c = P(plan)
        c["schedule"] = [[] for _ in sch]
        yield "empty schedule", c
    elif sch and not isinstance(sch[0], list):
        c = P(plan)
        c["schedule"] = []
        yield "empty schedule", c
    if plan.get("knobs", {}).get("alt_phases"):
        c = P(plan)
        c["knobs"]["alt_phases"] = []
        yield "all phases in the run's own interpreter", c
    if plan.get("knobs", {}).get("opt_phases"):
        c = P(plan)
        c["knobs"]["opt_phases"] = []
        yield "no phase under python -O", c
    # drop whole phases
    for i in range(len(phases)):
        if len(phases) > 1:
            c = P(plan)
            del c["phases"][i]
            if isinstance(c.get("schedule"), list) and c["schedule"] and isinstance(c["schedule"][0], list) and i < len(c["schedule"]):
                del c["schedule"][i]
            for key in ("alt_phases", "opt_phases"):
                ap = c.get("knobs", {}).get(key)
                if ap:
                    c["knobs"][key] = [x - 1 if x > i else x for x in ap if x != i]
            yield f"drop phase {i}", c
    # drop sessions / tasks / ops
    for i, ph in enumerate(phases):
        for j, sess in enumerate(ph["sessions"]):
            if len(ph["sessions"]) > 1:
                c = P(plan)
                del c["phases"][i]["sessions"][j]
                yield f"drop session {i}.{j}", c
            for k, ops in enumerate(sess["tasks"]):
                if len(sess["tasks"]) > 1:
                    c = P(plan)
                    del c["phases"][i]["sessions"][j]["tasks"][k]
                    yield f"drop task {i}.{j}.{k}", c
                for m in range(len(ops)):
                    if len(ops) > 1:
                        c = P(plan)
                        del c["phases"][i]["sessions"][j]["tasks"][k][m]
                        yield f"drop op {i}.{j}.{k}.{m}", c
            # merge all tasks into one (removes concurrency)
            if len(sess["tasks"]) > 1:
                c = P(plan)
                c["phases"][i]["sessions"][j]["tasks"] = [[op for ops in sess["tasks"] for op in ops]]
                yield f"serialise session {i}.{j}", c
            if sess.get("end") in ("kill", "interrupt"):
                c = P(plan)
                c["phases"][i]["sessions"][j]["end"] = "graceful"
                c["phases"][i]["sessions"][j].pop("fault_step", None)
                yield f"no fault in {i}.{j}", c
                if sess.get("end") == "interrupt":
                    c = P(plan)
                    c["phases"][i]["sessions"][j]["end"] = "kill"
                    yield f"interrupt->kill {i}.{j}", c
                fs = sess.get("fault_step")
                if fs and fs > 1:
                    for nf in sorted({1, fs // 2, fs - 1}):
                        if nf < fs:
                            c = P(plan)
                            c["phases"][i]["sessions"][j]["fault_step"] = nf
                            yield f"fault step {fs}->{nf} in {i}.{j}", c
            if len(sess.get("aggs", [])) > 1:
                for a in range(len(sess["aggs"])):
                    c = P(plan)
                    s2 = c["phases"][i]["sessions"][j]
                    keep = [t for t in ([op for op in ops if op[1] != a] for ops in s2["tasks"]) if t]
                    if not keep:
                        continue
                    for t in keep:
                        for op in t:
                            if op[1] > a:
                                op[1] -= 1
                    s2["tasks"] = keep
                    del s2["aggs"][a]
                    yield f"drop aggregator {a} of {i}.{j}", c
            for flag in ("decoy", "main_stat", "recreate", "continue_file", "spelling", "isolated"):
                if sess.get(flag):
                    c = P(plan)
                    c["phases"][i]["sessions"][j].pop(flag)
                    yield f"no {flag} in {i}.{j}", c
            if sess.get("path_kind") == "path":
                c = P(plan)
                c["phases"][i]["sessions"][j]["path_kind"] = "str"
                yield "str path", c
    # files
    for fname, f in plan.get("files", {}).items():
        if f.get("initial", "absent") != "absent":
            c = P(plan)
            c["files"][fname]["initial"] = "absent"
            c["files"][fname].pop("initial_subjects", None)
            yield f"{fname} initially absent", c
            if f.get("initial") == "rows" and len(f.get("initial_subjects", [])) > 1:
                c = P(plan)
                c["files"][fname]["initial_subjects"] = f["initial_subjects"][:1]
                yield f"{fname} one initial row", c
        if f.get("log_times"):
            c = P(plan)
            c["files"][fname]["log_times"] = False
            yield f"{fname} no log_times", c
        if f.get("initial_bulk"):
            for nb in (0, 8):
                if nb < f["initial_bulk"]:
                    c = P(plan)
                    if nb:
                        c["files"][fname]["initial_bulk"] = nb
                    else:
                        c["files"][fname].pop("initial_bulk")
                    yield f"{fname} bulk rows {nb}", c
        if f.get("given"):
            c = P(plan)
            c["files"][fname].pop("given")
            yield f"{fname} given with extension", c
    if plan.get("strip_final_newline"):
        c = P(plan)
        c.pop("strip_final_newline")
        yield "keep the final newline", c
    if plan.get("stale_buffer"):
        c = P(plan)
        c.pop("stale_buffer")
        yield "no stale buffer", c
    # knobs
    k = plan.get("knobs", {})
    for key, simple in (("line_preempt", False), ("pool", "serial"), ("mode", "threads"), ("state_digest", False), ("clock_jump", 0.0), ("pool_points", False), ("pool_workers", 1), ("workdir", "w"), ("relpath", None), ("pct_depth", 0), ("locale", None), ("mtime_granularity", None), ("clock_slow", False), ("symlink", False), ("gc", None), ("fork_at", "spawn"), ("stall", None), ("stall_task", None)):
        if k.get(key) != simple and key in k:
            c = P(plan)
            c["knobs"][key] = simple
            yield f"knob {key}={simple}", c
    # specification
    spec = plan.get("spec")
    if spec is not None and spec.get("stub") is None:
        if spec != SIMPLE_SPEC:
            c = P(plan)
            c["spec"] = P(SIMPLE_SPEC)
            c["inputs"] = {key: P(SIMPLE_INPUT) for key in plan["inputs"]}
            yield "simplest spec and inputs", c
        for key, simple in (("ech", None), ("decision", None), ("save_group_times", False), ("log_times", False), ("verbose", False), ("glob_metrics", [])):
            if spec.get(key) != simple:
                c = P(plan)
                c["spec"][key] = simple
                yield f"spec {key}={simple}", c
        im = spec.get("inst_metrics")
        if im is None or len(im) > 2:
            c = P(plan)
            c["spec"]["inst_metrics"] = ["DSC", "IOU"]
            c["spec"]["decision"] = None
            yield "spec inst_metrics=DSC,IOU", c
        if im is None or len(im) > 1:
            c = P(plan)
            c["spec"]["inst_metrics"] = ["DSC"]
            c["spec"]["decision"] = None
            yield "spec inst_metrics=DSC", c
        if spec.get("groups"):
            if len(spec["groups"]) > 1:
                for gi in range(len(spec["groups"])):
                    c = P(plan)
                    del c["spec"]["groups"][gi]
                    yield f"drop group {gi}", c
            for gi, g in enumerate(spec["groups"]):
                if g["name"] != f"g{gi}":
                    c = P(plan)
                    c["spec"]["groups"][gi]["name"] = f"g{gi}"
                    yield f"plain name for group {gi}", c
    if spec is not None and spec.get("stub") is not None:
        st = spec["stub"]
        if len(st["groups"]) > 1:
            for gi, g in enumerate(st["groups"]):
                c = P(plan)
                c["spec"]["stub"]["groups"] = [x for x in st["groups"] if x != g]
                for k in c["spec"]["stub"]["values"]:
                    c["spec"]["stub"]["values"][k].pop(g, None)
                for ph in c["phases"]:
                    for sess in ph["sessions"]:
                        sess.pop("spec_variant", None)
                yield f"drop stub group {gi}", c
        if len(st["keys"]) > 1:
            for ki, key in enumerate(st["keys"]):
                c = P(plan)
                c["spec"]["stub"]["keys"] = [x for x in st["keys"] if x != key]
                for k in c["spec"]["stub"]["values"]:
                    for g in c["spec"]["stub"]["values"][k]:
                        c["spec"]["stub"]["values"][k][g].pop(key, None)
                yield f"drop stub key {ki}", c
        for gi, g in enumerate(st["groups"]):
            if g != f"g{gi}" and f"g{gi}" not in st["groups"]:
                c = P(plan)
                c["spec"]["stub"]["groups"][gi] = f"g{gi}"
                for k in c["spec"]["stub"]["values"]:
                    c["spec"]["stub"]["values"][k][f"g{gi}"] = c["spec"]["stub"]["values"][k].pop(g)
                yield f"plain name for stub group {gi}", c
        for k in sorted(st["values"]):
            for g in st["values"][k]:
                for m, v in st["values"][k][g].items():
                    if v != ["i", 1]:
                        c = P(plan)
                        c["spec"]["stub"]["values"][k][g][m] = ["i", 1]
                        yield f"stub value {k}/{g}/{m}=1", c
        if spec.get("save_group_times"):
            c = P(plan)
            c["spec"]["save_group_times"] = False
            yield "stub no group times", c
    for i, ph in enumerate(phases):
        for j, sess in enumerate(ph["sessions"]):
            if sess.get("spec_variant"):
                c = P(plan)
                c["phases"][i]["sessions"][j].pop("spec_variant")
                yield f"no spec variant in {i}.{j}", c
    # inputs: all the same tiny one
    if plan.get("inputs") and spec is not None and spec.get("stub") is None and spec.get("groups") is None:
        if any(v != SIMPLE_INPUT for v in plan["inputs"].values()):
            c = P(plan)
            c["inputs"] = {key: P(SIMPLE_INPUT) for key in plan["inputs"]}
            yield "tiny inputs", c
    # subject names
    names = []
    for ph in phases:
        for sess in ph["sessions"]:
            for ops in sess["tasks"]:
                for op in ops:
                    if op[0] == "eval" and op[2] not in names:
                        names.append(op[2])
    for f in plan.get("files", {}).values():
        for s, _ in f.get("initial_subjects", []):
            if s not in names:
                names.append(s)
    for idx, nm in enumerate(names):
        simple = f"s{idx}"
        if nm != simple and simple not in names:
            c = P(plan)
            for ph in c["phases"]:
                for sess in ph["sessions"]:
                    for ops in sess["tasks"]:
                        for op in ops:
                            if op[0] == "eval" and op[2] == nm:
                                op[2] = simple
            for f in c.get("files", {}).values():
                for ent in f.get("initial_subjects", []):
                    if ent[0] == nm:
                        ent[0] = simple
            if c.get("stale_buffer"):
                c["stale_buffer"] = [simple if s == nm else s for s in c["stale_buffer"]]
            yield f"rename {nm!r}->{simple}", c
    # schedule: per phase, cut the tail, then zero choices from the end
    sch = plan.get("schedule")
    if sch and isinstance(sch[0], list):
        for pi, ps in enumerate(sch):
            if not ps:
                continue
            for cut in (0, len(ps) // 2, len(ps) - 1):
                if cut < len(ps):
                    c = P(plan)
                    c["schedule"][pi] = ps[:cut]
                    yield f"schedule[{pi}] cut to {cut}", c
            nz = [i for i, x in enumerate(ps) if x != 0]
            for i in reversed(nz[-12:]):
                c = P(plan)
                c["schedule"][pi][i] = 0
                yield f"schedule[{pi}][{i}]=0", c


def shrink(plan: dict, fails, max_execs: int = 400, extra_candidates=None):
    """`fails(plan) -> bool` executes a candidate in a fresh child.  Greedy passes: within a pass
    a candidate description that failed is not retried; a pass without success on a cleared
    memory ends the search (fixpoint) unless the budget ends it first."""
    execs = 0
    steps = []
    gen = extra_candidates or _candidates
    failed: set = set()
    fresh = True  # the failed-memory is empty at the start of this pass
    while execs < max_execs:
        progressed = False
        for desc, cand in gen(plan):
            if desc in failed:
                continue
            if execs >= max_execs:
                break
            execs += 1
            try:
                ok = fails(cand)
            except Exception:  # noqa: BLE001
                ok = False
            if ok:
                plan = cand
                steps.append(desc)
                progressed = True
                break
            failed.add(desc)
        if progressed:
            fresh = False
            continue
        if fresh:
            break
        failed.clear()
        fresh = True
    return plan, execs, steps
