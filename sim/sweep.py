"""C17 thorough tier: every crash point of a sampled history.

A sampled history = (specification, workload, initial file state, schedule).  It is executed
once without faults to learn the schedule taken and the number K of scheduling steps of the
session under attack; then it is re-executed once per crash point k = 1..K with the same
schedule prefix: the session's process group is killed at step k and a final session
resubmits everything."""

from __future__ import annotations

import copy
import random

from . import gen, plans


def base_plan(seed: int) -> dict:
    rng = random.Random(seed ^ 0x5EE9)
    plan = plans.plan_c17(seed, faults=False)
    # exactly two phases: the session under attack (plus optional sibling), then the final one
    first = plan["phases"][0]
    last = copy.deepcopy(plan["phases"][-1]) if len(plan["phases"]) > 1 else copy.deepcopy(first)
    for s in last["sessions"]:
        s["group"] = s["group"][0] + "f"
        s["end"] = "graceful"
    for s in first["sessions"]:
        s["end"] = "graceful"
    plan["phases"] = [first, last]
    plan["knobs"]["state_digest"] = False
    # crash points are the file / lock / pool / evaluate operations (the property's "between
    # any two file operations"); source-line pre-emption would only multiply equal states
    plan["knobs"]["line_preempt"] = False
    plan["sweep_target"] = first["sessions"][0]["group"]
    plan["property"] = "C17"
    return plan


def sweep_plan(cfg, seed: int, variant):
    plan = base_plan(seed)
    if variant is None:
        return plan
    plan["schedule"] = list(variant["schedule"])
    for s in plan["phases"][0]["sessions"]:
        if s["group"] == plan["sweep_target"]:
            s["end"] = variant.get("what", "kill")
            s["fault_step"] = variant["k"]
    return plan


def sweep_job(cfg, seed: int, base: str, idx: int):
    from .check import exec_plan, run_summary

    p0 = sweep_plan(cfg, seed, None)
    r0 = exec_plan(cfg, p0, base, f"s{idx}-0")
    if r0.get("harness_error"):
        return {"harness_error": r0["harness_error"]}
    K = r0["steps"][0]
    sched = list(r0.get("schedule", []))
    s0 = run_summary(r0)
    s0.pop("states", None)
    runs = [(None, s0)]
    for k in range(1, K + 1):
        var = {"k": k, "schedule": sched}
        rk = exec_plan(cfg, sweep_plan(cfg, seed, var), base, f"s{idx}-{k}")
        sk = run_summary(rk)
        sk.pop("states", None)
        sk.pop("schedule", None)
        runs.append((var, sk))
    return {"runs": runs, "points": K}
