"""C17 thorough tier: every crash point of a sampled history.

A sampled history = (specification, workload, initial file state, schedule).  It is executed
once without faults to learn the schedule taken and the number K of scheduling steps of the
session under attack; then it is re-executed once per crash point k = 1..K with the same
schedule prefix: the session's process group is killed (or, in every fourth history,
interrupted) at step k and a final session resubmits everything.

Depth 2 (every fifth history of the thorough tier): the first session is killed at a seeded
step k1, the restarted session is then attacked at every one of its steps k2, and a third
session resubmits everything - every crash point of the *recovery* is enumerated too."""

from __future__ import annotations

import copy
import random

from . import plans


def base_plan(seed: int, depth: int = 1) -> dict:
    plan = plans.plan_c17(seed, faults=False)
    first = plan["phases"][0]
    last = copy.deepcopy(plan["phases"][-1]) if len(plan["phases"]) > 1 else copy.deepcopy(first)
    for s in first["sessions"]:
        s["end"] = "graceful"
    phases = [first]
    if depth == 2:
        mid = copy.deepcopy(last)
        for s in mid["sessions"]:
            s["group"] = s["group"][0] + "m"
            s["end"] = "graceful"
        phases.append(mid)
    for s in last["sessions"]:
        s["group"] = s["group"][0] + "f"
        s["end"] = "graceful"
    phases.append(last)
    plan["phases"] = phases
    plan["knobs"]["state_digest"] = False
    # crash points are the file / lock / pool / evaluate operations (the property's "between
    # any two file operations"); source-line pre-emption would only multiply equal states
    plan["knobs"]["line_preempt"] = False
    plan["sweep_targets"] = [ph["sessions"][0]["group"] for ph in phases[:-1]]
    rng = random.Random(seed ^ 0xA17)
    plan["knobs"]["alt_phases"] = [pi for pi in range(1, len(phases)) if rng.random() < 0.5]
    plan["property"] = "C17"
    return plan


def sweep_plan(cfg, seed: int, variant):
    depth = 1 if variant is None else variant.get("depth", 1)
    plan = base_plan(seed, depth)
    if variant is None or variant.get("k") is None:
        pass
    if variant is None:
        return plan
    if variant.get("schedule") is not None:
        plan["schedule"] = list(variant["schedule"])
    ks = variant.get("ks", [])
    for pi, k in enumerate(ks):
        if k is None:
            continue
        for s in plan["phases"][pi]["sessions"]:
            if s["group"] == plan["sweep_targets"][pi]:
                s["end"] = variant.get("what", "kill")
                s["fault_step"] = k
    return plan


def sweep_job(cfg, seed: int, base: str, idx: int):
    from .check import exec_plan, run_summary

    rng = random.Random(seed ^ 0x5EE9)
    depth = 2 if rng.random() < 0.2 else 1
    what = "interrupt" if rng.random() < 0.25 else "kill"

    def run(variant, tag, extra=None):
        p = sweep_plan(cfg, seed, variant)
        if extra:
            p.update(extra)
        r = exec_plan(cfg, p, base, tag)
        return r

    v0 = {"depth": depth, "ks": [], "schedule": None, "what": what}
    r0 = run(v0, f"s{idx}-0", {"want_ref": True})
    if r0.get("harness_error"):
        return {"harness_error": r0["harness_error"]}
    ref = r0.get("ref")
    sched = list(r0.get("schedule", []))
    s0 = run_summary(r0)
    s0.pop("states", None)
    runs = [(v0, s0)]
    prefix = []
    if depth == 2:
        k1 = rng.randint(1, max(1, r0["steps"][0]))
        v1 = {"depth": 2, "ks": [k1], "schedule": sched, "what": "kill"}
        r1 = run(v1, f"s{idx}-k1", {"ref_cache": ref})
        if r1.get("harness_error"):
            return {"harness_error": r1["harness_error"]}
        s1 = run_summary(r1)
        s1.pop("states", None)
        runs.append((v1, s1))
        prefix = [k1]
        sched = list(r1.get("schedule", sched))
        K = r1["steps"][1]
    else:
        K = r0["steps"][0]
    for k in range(1, K + 1):
        var = {"depth": depth, "ks": prefix + [k], "schedule": sched, "what": what}
        rk = run(var, f"s{idx}-{k}", {"ref_cache": ref})
        sk = run_summary(rk)
        sk.pop("states", None)
        sk.pop("schedule", None)
        runs.append((var, sk))
    return {"runs": runs, "points": K, "depth": depth, "what": what}
