#!/bin/bash
# Runs every self-test of the machinery in sequence (hours); logs under /tmp/consolidate/.
mkdir -p /tmp/consolidate
cd /verif
./check selftest-mutants --with-tests > /tmp/consolidate/mutants.log 2>&1 < /dev/null; echo "mutants rc=$?" >> /tmp/consolidate/summary
./check selftest-seeded > /tmp/consolidate/seeded.log 2>&1 < /dev/null; echo "seeded rc=$?" >> /tmp/consolidate/summary
./check selftest-refactorings > /tmp/consolidate/refactorings.log 2>&1 < /dev/null; echo "refactorings rc=$?" >> /tmp/consolidate/summary
./check selftest-determinism --runs 1500 > /tmp/consolidate/determinism.log 2>&1 < /dev/null; echo "determinism rc=$?" >> /tmp/consolidate/summary
./check selftest-poolfidelity --runs 60 > /tmp/consolidate/poolfidelity.log 2>&1 < /dev/null; echo "poolfidelity rc=$?" >> /tmp/consolidate/summary
echo "done $(date)" >> /tmp/consolidate/summary
