#!/usr/bin/env python3
"""Regenerates the data-driven parts of DESIGN.md §8.3/§8.4 from evidence/selftest-*.json."""
import json, re, sys
D = '/verif/DESIGN.md'
s = open(D).read()
m = json.load(open('/verif/evidence/selftest-mutants.json'))
rows = ["", "| mutant | needs | baseline tests | check → clauses that fired (runs) |", "|---|---|---|---|"]
for r in m['results']:
    cells = []
    for p, c in r['checks'].items():
        cl = c['clauses']
        txt = ", ".join(f"{k} {v}" for k, v in sorted(cl.items())) or "—"
        if c.get('caught_by_regression_replay'):
            sa = c.get('search_alone', {})
            txt = "regression replay; search alone: " + (", ".join(f"{k} {v}" for k, v in sorted(sa.get('clauses', {}).items())) or f"exit {sa.get('exit')}")
        cells.append(f"{p} exit {c['exit']}: {txt}")
    rows.append(f"| `{r['name']}` | {r['needs']} | {r.get('baseline_passed','n/a')}/80 | {'; '.join(cells)} |")
rows.append("")
rows.append(f"{m['mutants']} mutants, {m['missed']} missed (seed {m['seed']}, {m['wall_s']} s). Mutants with fewer than 80 passing baseline tests would already be stopped by the existing suite; they are kept as sanity checks of the oracles only.")
table = "\n".join(rows)
a = s.index('<!-- MUTANT_TABLE -->') if '<!-- MUTANT_TABLE -->' in s else None
if a is None:
    s = s.replace('MUTANT_TABLE', '<!-- MUTANT_TABLE -->\n' + table + '\n<!-- /MUTANT_TABLE -->')
else:
    b = s.index('<!-- /MUTANT_TABLE -->')
    s = s[:a] + '<!-- MUTANT_TABLE -->\n' + table + '\n' + s[b:]
try:
    d = json.load(open('/verif/evidence/selftest-determinism.json'))
    lines = [f"`./check selftest-determinism --runs N` (seed {d['seed']}, {d['wall_s']} s): every run seed executed in two separate interpreters (PYTHONHASHSEED 0 with 16 workers, 4242 with 3 workers); digests = event log, surviving file bytes, violated clauses.", ""]
    lines += ["| property | seeds | differing | harness errors | distinct digests |", "|---|---|---|---|---|"]
    for p, v in d['per_property'].items():
        lines.append(f"| {p} | {v['runs']} | {v['differing']} | {v['harness_errors']} | {v['distinct_digests']} |")
    det = "\n".join(lines)
except FileNotFoundError:
    det = "(not run yet)"
extra = []
for name, fmt in (("selftest-seeded", lambda d: f"`./check selftest-seeded`: {d['changes']} independent changes re-applied to scratch copies, {d['not_as_documented']} not as documented in their meta.json ({d['wall_s']} s)."),
                  ("selftest-refactorings", lambda d: f"`./check selftest-refactorings`: {d['refactorings']} behaviour-preserving refactorings x 5 checks, {d['false_alarms']} false alarms, {d['harness_errors']} harness errors ({d['wall_s']} s)."),
                  ("selftest-poolfidelity", lambda d: f"`./check selftest-poolfidelity`: {d['cases']} cases with real worker processes vs SimPool vs serial, {len(d['mismatches'])} mismatches ({d['wall_s']} s)."),
                  ("selftest-mutants", lambda d: f"`./check selftest-mutants --with-tests`: {d['mutants']} own mutants, {d['missed']} missed ({d['wall_s']} s).")):
    try:
        extra.append("- " + fmt(json.load(open(f'/verif/evidence/{name}.json'))))
    except (FileNotFoundError, KeyError):
        pass
det += "\n\nOther self-tests (last run):\n\n" + "\n".join(extra)
thr = []
for p in ['C15', 'C16', 'C17', 'C18', 'C20']:
    try:
        e = json.load(open(f'/verif/evidence/{p}.json'))
        c = e['coverage']
        thr.append(f"| {p} | {e['tier']} | {c['evaluations']} | {c['distinct_nontrivial']} | {c['scheduler_steps']} | {c['runs_per_hour']} | {e['wall_s']} |")
    except FileNotFoundError:
        pass
det += "\n\nLast committed evidence runs:\n\n| property | tier | runs | distinct non-trivial | scheduler steps | runs/hour | wall s |\n|---|---|---|---|---|---|---|\n" + "\n".join(thr)
if '<!-- DETERMINISM -->' in s:
    a = s.index('<!-- DETERMINISM -->'); b = s.index('<!-- /DETERMINISM -->')
    s = s[:a] + '<!-- DETERMINISM -->\n' + det + '\n' + s[b:]
else:
    s = s.replace('DETERMINISM_TEXT', '<!-- DETERMINISM -->\n' + det + '\n<!-- /DETERMINISM -->')
open(D, 'w').write(s)
print("DESIGN.md updated")
