#!/bin/bash
# Thorough tier of all five checks in /verif (writes evidence/<id>.json); logs under /tmp/final/.
mkdir -p /tmp/final
cd /verif
for p in C17 C16 C18 C20 C15; do
  ./check $p --tier thorough > /tmp/final/$p.log 2>&1 < /dev/null
  echo "$p rc=$? $(date)" >> /tmp/final/summary
done
echo done >> /tmp/final/summary
