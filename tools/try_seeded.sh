#!/bin/bash
# usage: try_seeded.sh <worktree> <i> <seeded-id> <prop> [more props...]
# Confirms a sub-agent's change (tests pass, demo fails with / passes without the patch), runs the
# named checks against the patched worktree (VERIF_REPO) and files the result under /verif/seeded/<id>/.
set -u
WT=$1; I=$2; ID=$3; shift 3
OUT=/verif/seeded/$ID
mkdir -p $OUT
cp $WT/_out/patch$I.diff $OUT/patch.diff
cp $WT/_out/demo$I.py $OUT/demo.py
cp $WT/_out/notes$I.md $OUT/notes.md 2>/dev/null
cd $WT && git checkout -q -- . && git apply _out/patch$I.diff || { echo "patch does not apply"; exit 2; }
export PANOPTICA_CITATION_REMINDER=false
TESTS=$(PYTHONPATH=$WT timeout 900 /venv/bin/python -m pytest -q -p no:cacheprovider --timeout=900 unit_tests 2>&1 | tail -1)
PYTHONPATH=$WT timeout 120 /venv/bin/python _out/demo$I.py > $OUT/demo_with_patch.txt 2>&1; DEMO_WITH=$?
declare -A RES
for P in "$@"; do
  (cd /verif && VERIF_REPO=$WT VERIF_REPLAY_DIR=$OUT/replays timeout 3000 ./check $P --tier quick --no-evidence --no-detcheck > $OUT/check_$P.txt 2>&1 < /dev/null); RES[$P]=$?
done
git apply -R _out/patch$I.diff
PYTHONPATH=$WT timeout 120 /venv/bin/python _out/demo$I.py > $OUT/demo_without_patch.txt 2>&1; DEMO_WITHOUT=$?
git checkout -q -- .
echo "tests_with_patch: $TESTS"
echo "demo_with_patch_exit: $DEMO_WITH   demo_without_patch_exit: $DEMO_WITHOUT"
for P in "$@"; do echo "check $P exit: ${RES[$P]}"; grep -E "^violation of clause|^VIOLATION|HARNESS" $OUT/check_$P.txt | head -6; tail -1 $OUT/check_$P.txt; done
python3 - "$OUT" "$ID" "$TESTS" "$DEMO_WITH" "$DEMO_WITHOUT" "$@" <<PY
import json,sys,re,os
out,id_,tests,dw,dwo,*props=sys.argv[1:]
res={}
for p in props:
    t=open(f"{out}/check_{p}.txt").read()
    m=re.search(r"-> exit (\d+)",t)
    res[p]={"exit": int(m.group(1)) if m else None, "clauses": dict(re.findall(r"^violation of clause (\S+) \((\d+) runs\)",t,re.M))}
meta={"id":id_,"breaks":props[0],"checks_run":props,"tests_with_patch":tests.strip(),"demo_exit_with_patch":int(dw),"demo_exit_without_patch":int(dwo),"check_results":res,
 "ran":"tools/try_seeded.sh (patch applied in the agent's scratch worktree, checks run with VERIF_REPO pointing at it)"}
old={}
if os.path.exists(f"{out}/meta.json"):
    old=json.load(open(f"{out}/meta.json"))
old.update(meta)
json.dump(old,open(f"{out}/meta.json","w"),indent=1)
PY
